import re,sys
txt=open('dl.mir').read()
blocks={}
for m in re.finditer(r'^    (bb\d+)(?: \(cleanup\))?: \{\n(.*?)^    \}\n', txt, re.S|re.M):
    blocks[m.group(1)]=[l.strip() for l in m.group(2).strip().split('\n')]
print(len(blocks),'blocks')
def succ(term):
    return re.findall(r'\b(bb\d+)\b', term.split('->',1)[1]) if '->' in term else []
start=[b for b,ls in blocks.items() if any('as '+sys.argv[1]+')' in l for l in ls)]
print('start',start)
seen=set(); todo=[start[0]]; n=0
while todo and n<40:
    b=todo.pop(0)
    if b in seen: continue
    seen.add(b); n+=1
    ls=blocks[b]
    print(b+':')
    for l in ls: print('   ',l[:170])
    t=ls[-1]
    for s in succ(t):
        if 'unwind' in t and s==succ(t)[-1] and 'unwind: '+s in t: continue
        todo.append(s)

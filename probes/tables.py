import re,glob
mir=open('mir.txt').read()
out=glob.glob('/var/tmp/scr/mir-target/debug/build/scryer-prolog-*/out/static_atoms.rs')[0]
sa=open(out).read()
strings=re.findall(r'^\s*"((?:[^"\\]|\\.)*)",$', sa[sa.index('static STRINGS'):sa.index('];')], re.M)
def atom_text(idx):
    idx=int(idx)
    if idx&1:
        b=(idx>>1).to_bytes(8,'little'); return b.split(b'\0')[0].decode()
    return strings[idx>>1]
def body(name_re):
    m=re.search(r'^fn '+name_re+r'\(.*?^}\n', mir, re.S|re.M)
    return m.group(0)
def blocks_of(b):
    return {m.group(1):[l.strip() for l in m.group(2).strip().split('\n')] for m in re.finditer(r'^    (bb\d+)(?: \(cleanup\))?: \{\n(.*?)^    \}\n', b, re.S|re.M)}
# (a)(b) functor -> Instruction variant
def instr_table(fn):
    b=body(r'arithmetic::<impl at src/arithmetic\.rs:169:1: 169:33>::'+fn)
    bl=blocks_of(b)
    sw=re.search(r'switchInt\(copy \(_2\.0: u64\)\) -> \[(.*?)\];', b).group(1)
    t={}
    for val,tb in re.findall(r'(\d+): (bb\d+)', sw):
        v=[re.search(r'instructions::Instruction::(\w+)\(',l) for l in bl[tb]]
        v=[x.group(1) for x in v if x]
        t[atom_text(val)]=v[0]
    return t
bin_i=instr_table('get_binary_instr'); un_i=instr_table('get_unary_instr')
# (c) variant -> handler in dispatch_loop
dl=body(r'dispatch::<impl at src/machine/dispatch\.rs:1308:1: 1308:13>::dispatch_loop')
handler={}
for m in re.finditer(r'\(\(\(\*_12\) as (\w+)\)\.\d: [^\n]*\n(?:[^\n]*\n){0,4}?\s*_3 = dispatch::<impl machine_state::MachineState>::(\w+_instr)\(', dl):
    handler.setdefault(m.group(1),m.group(2))
# (d) handler -> kernel calls
def kernels_of_handler(h):
    b=body(r'dispatch::<impl at src/machine/dispatch\.rs:82:1: 82:18>::'+h)
    ks=re.findall(r'= (arithmetic_ops::\w+|forms::Number::sign|<forms::Number as Div>::div)\(([^)]*)\)', b)
    return [k for k,a in ks if not k.endswith('get_number')]
# (e) runtime: atom -> kernel
ae=body(r'arithmetic_ops::<impl at src/machine/arithmetic_ops\.rs:1119:1: 1119:18>::arith_eval_by_metacall')
abl=blocks_of(ae)
def follow(b,depth=0):
    # first arithmetic_ops::/sign call reachable by straight-line/gotos
    seen=set()
    while b not in seen and depth<12:
        seen.add(b); depth+=1
        for l in abl[b]:
            m=re.search(r'= (arithmetic_ops::\w+|forms::Number::sign)\(',l)
            if m and not m.group(1).endswith('rational_from_number'): return m.group(1)
            if 'rational_from_number' in l: return 'arithmetic_ops::rdiv'
        t=abl[b][-1]
        m=re.search(r'return: (bb\d+)',t) or re.search(r'goto -> (bb\d+)',t)
        if not m: return None
        b=m.group(1)
    return None
rt=[]
for sw in re.findall(r'switchInt\(copy \(_52\.0: u64\)\) -> \[(.*?)\];', ae):
    t={}
    for val,tb in re.findall(r'(\d+): (bb\d+)', sw):
        t[atom_text(val)]=follow(tb)
    rt.append(t)
rt_bin,rt_un,rt_nul=rt
print('binary functors compiled:',len(bin_i),'runtime:',len(rt_bin)); print('unary compiled:',len(un_i),'runtime:',len(rt_un),'nullary runtime:',list(rt_nul))
mism=0
for name,table,rtab in (('bin',bin_i,rt_bin),('un',un_i,rt_un)):
    for f,var in sorted(table.items()):
        h=handler.get(var); ks=kernels_of_handler(h) if h else None
        r=rtab.get(f)
        kc=ks[-1] if ks else None
        flag='' if (kc==r or (kc is None and r is None)) else '   <-- differs'
        if flag: mism+=1
        print(f"{name} {f:24s} {var:22s} {str(h):34s} compiled={kc} runtime={r}{flag}")
    for f in set(rtab)-set(table): print(name,'runtime-only functor',f); mism+=1
print('differences:',mism)

#!/bin/bash
# usage: runk.sh srcdir targetdir harness [timeout_s] [extra args]
src=$1; tgt=$2; h=$3; to=${4:-900}; shift 4
cd $src
ulimit -s unlimited
ulimit -v 24000000
start=$(date +%s)
CARGO_NET_OFFLINE=true timeout $to cargo kani --no-default-features -Z stubbing --harness $h --target-dir $tgt "$@" > /var/tmp/scr/$h.log 2>&1
rc=$?
end=$(date +%s)
echo "== $h rc=$rc wall=$((end-start))s"
grep -E "^VERIFICATION|Verification Time|\*\* [0-9]+ of|Failed Checks|^error|out of memory|CBMC failed|SATISFIED|UNSATISFIABLE" /var/tmp/scr/$h.log | cut -c1-220 | head -12

import re,sys,itertools
txt=open('dl.mir').read()
blocks={}
for m in re.finditer(r'^    (bb\d+)(?: \(cleanup\))?: \{\n(.*?)^    \}\n', txt, re.S|re.M):
    blocks[m.group(1)]=[l.strip() for l in m.group(2).strip().split('\n')]
LOOP_HEAD='bb1'
def arm_entry(variant):
    c=[b for b,ls in blocks.items() if any(('as '+variant+')') in l for l in ls)]
    assert len(c)==1,(variant,c); return c[0]
def run(variant):
    results={}   # ord -> set of outcomes
    # state: (block, env) env: dict local->symbolic tag
    def explore(b, env, events, ordv, depth):
        if depth>80: results.setdefault(ordv,set()).add('DEPTH'); return
        if b==LOOP_HEAD:
            out='succeed' if ('pstore' in events and 'backtrack' not in events) else ('backtrack' if 'backtrack' in events else 'noop')
            if 'throw' in events: out='throw'
            results.setdefault(ordv,set()).add(out); return
        ls=blocks[b]
        env=dict(env); events=set(events)
        for l in ls[:-1]:
            m=re.match(r'(_\d+) = discriminant\((_\d+)\);',l)
            if m: env[m.group(1)]=('disc',env.get(m.group(2),('unk',m.group(2)))); continue
            m=re.match(r'(_\d+) = (?:move|copy) (_\d+);',l)
            if m and m.group(2) in env: env[m.group(1)]=env[m.group(2)]; continue
            m=re.match(r'(_\d+) = const (true|false);',l)
            if m: env[m.group(1)]=('bool',m.group(2)=='true'); continue
            if re.match(r'\(\(\(\*_1\)\.0: machine::machine_state::MachineState\)\.6: usize\) = ',l): events.add('pstore')
        t=ls[-1]
        mcall=re.match(r'(?:(_\d+) = )?(.+?)\((.*)\) -> \[return: (bb\d+)',t)
        if t.startswith('goto -> '):
            return explore(t.split('-> ')[1].rstrip(';'),env,events,ordv,depth+1)
        if t.startswith('drop('):
            return explore(re.search(r'return: (bb\d+)',t).group(1),env,events,ordv,depth+1)
        if t.startswith('assert('):
            return explore(re.search(r'success: (bb\d+)',t).group(1),env,events,ordv,depth+1)
        if t.startswith('switchInt('):
            var=re.match(r'switchInt\((?:move|copy) (_\d+)\)',t).group(1)
            targets=re.findall(r'(\d+|otherwise): (bb\d+)',t)
            v=env.get(var)
            if v and v[0]=='disc' and v[1][0]=='ord':
                names={'255':'Less','0':'Equal','1':'Greater'}
                seen=set()
                for val,tb in targets:
                    if val=='otherwise':
                        # 'otherwise' stands for every ordering value not listed explicitly
                        if blocks[tb]==['unreachable;']: continue
                        for o in set(names.values())-seen:
                            if ordv is None or ordv==o: explore(tb,env,events,o,depth+1)
                        continue
                    o=names[val]; seen.add(o)
                    if ordv is None or ordv==o: explore(tb,env,events,o,depth+1)
                return
            if v and v[0]=='disc' and v[1][0]=='result':
                tb=dict(targets)['0']; return explore(tb,env,events,ordv,depth+1)   # assume Ok
            if v and v[0]=='bool':
                tb=dict(targets).get('1' if v[1] else '0', dict(targets).get('otherwise')); return explore(tb,env,events,ordv,depth+1)
            if v and v[0]=='icc':   # increment_call_count ok?
                tb=dict(targets).get('otherwise'); return explore(tb,env,events,ordv,depth+1)  # assume within limit
            for val,tb in targets: explore(tb,env,events,ordv,depth+1)
            return
        if mcall:
            dst,fn,args,ret=mcall.groups()
            if fn.endswith('get_number'): env[dst]=('result',dst)
            elif 'std::cmp::Ord>::cmp' in fn: env[dst]=('ord',dst)
            elif fn.endswith('MachineState::backtrack'): events.add('backtrack')
            elif fn.endswith('throw_exception'): events.add('throw')
            elif fn.endswith('increment_call_count'): env[dst]=('icc',dst)
            return explore(ret,env,events,ordv,depth+1)
        results.setdefault(ordv,set()).add('STUCK:'+t[:60])
    explore(arm_entry(variant),{},set(),None,0)
    return results
spec={'Equal':{'Equal'},'NotEqual':{'Less','Greater'},'LessThan':{'Less'},'LessThanOrEqual':{'Less','Equal'},'GreaterThan':{'Greater'},'GreaterThanOrEqual':{'Greater','Equal'}}
bad=0
for pre in ['Call','Execute','DefaultCall','DefaultExecute']:
    for rel in spec:
        r=run(pre+'Number'+rel)
        got={o for o,outs in r.items() if outs=={'succeed'}}
        ok = got==spec[rel] and all(outs in ({'succeed'},{'backtrack'}) for outs in r.values())
        bad+= (not ok)
        print(f"{pre+'Number'+rel:42s} succeeds on {sorted(got)} {'OK' if ok else 'MISMATCH '+str(r)}")
print('mismatches',bad)

// C09 — the derived order on clause death stamps (child module of src/instructions.rs)
#![allow(dead_code, unused_imports)]
use super::*;

#[kani::proof]
fn c09_death_order() {
    let a: usize = kani::any();
    let b: usize = kani::any();
    assert!((Death::Finite(a) <= Death::Finite(b)) == (a <= b));
    assert!((Death::Finite(a) < Death::Finite(b)) == (a < b));
    assert!(Death::Finite(a) <= Death::Infinity);
    assert!(!(Death::Infinity <= Death::Finite(a)));
    assert!(Death::Infinity <= Death::Infinity);
    assert!(Death::default() == Death::Infinity);
}

// a clause stamped (birth, death) is visible at generation cc iff birth < cc <= death;
// with the stamps retract writes (death = the clock value at retraction) this gives the logical
// update view: a call started at cc sees the clause iff it was asserted before and not yet
// retracted at cc
#[kani::proof]
fn c09_visibility_window() {
    let birth: usize = kani::any();
    let cc: usize = kani::any();
    let d: usize = kani::any();
    let inf: bool = kani::any();
    let death = if inf { Death::Infinity } else { Death::Finite(d) };
    let visible = birth < cc && Death::Finite(cc) <= death;
    let spec = birth < cc && (inf || cc <= d);
    assert!(visible == spec);
    // a later observer of a dead clause never sees it again
    let cc2: usize = kani::any();
    kani::assume(cc2 > cc);
    if !inf && d < cc {
        assert!(!(birth < cc2 && Death::Finite(cc2) <= death));
    }
}

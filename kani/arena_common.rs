// Helper for kernel harnesses (child module of src/arena.rs): an Arena whose slab list is empty
// and whose float / code-index tables are never initialised nor touched. Integer kernels only
// use `base` (arena_alloc!), so this avoids symbolically executing F64Table::new /
// CodeIndexTable::new (IndexMap + RawBlock set-up) in every harness. The value is never dropped.
#![allow(dead_code, unused_imports)]
use super::*;

pub(crate) struct BareArena(std::mem::MaybeUninit<Arena>);

impl BareArena {
    pub(crate) fn new() -> Self {
        let mut u = std::mem::MaybeUninit::<Arena>::uninit();
        unsafe { std::ptr::addr_of_mut!((*u.as_mut_ptr()).base).write(None) };
        BareArena(u)
    }
    pub(crate) fn get(&mut self) -> &mut Arena {
        unsafe { &mut *self.0.as_mut_ptr() }
    }
}

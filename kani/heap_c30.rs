// C30 — heap layer: when growth fails every fallible operation reports AllocError and leaves
// the heap exactly as it was.
#![allow(dead_code, unused_imports)]
use super::verif_heap_common::*;
use super::*;

const CAP: usize = 5;

struct Snap {
    len: usize,
    cap: usize,
    ptr: *mut u8,
    err: Option<NonZero<usize>>,
    idx: usize,
    byte: u8,
}

fn snap(h: &Heap) -> Snap {
    let idx: usize = kani::any();
    kani::assume(idx < h.inner.byte_cap);
    Snap {
        len: h.inner.byte_len,
        cap: h.inner.byte_cap,
        ptr: h.inner.ptr,
        err: h.resource_err_loc,
        idx,
        byte: unsafe { *h.inner.ptr.add(idx) },
    }
}

fn unchanged(h: &Heap, s: &Snap) -> bool {
    h.inner.byte_len == s.len
        && h.inner.byte_cap == s.cap
        && h.inner.ptr == s.ptr
        && h.resource_err_loc == s.err
        && unsafe { *h.inner.ptr.add(s.idx) } == s.byte
}

#[kani::proof]
#[kani::unwind(10)]
#[kani::stub(InnerHeap::grow, grow_fail)]
fn c30_push_cell_fails_cleanly() {
    let mut heap = mk_heap(CAP, CAP);
    let s = snap(&heap);
    let r = heap.push_cell(any_cell());
    assert!(r.is_err());
    assert!(unchanged(&heap, &s));
    std::mem::forget(heap);
}

#[kani::proof]
#[kani::unwind(10)]
#[kani::stub(InnerHeap::grow, grow_fail)]
fn c30_reserve_fails_cleanly() {
    let len: usize = kani::any();
    kani::assume(len <= CAP);
    let mut heap = mk_heap(CAP, len);
    let s = snap(&heap);
    let n: usize = kani::any();
    kani::assume(n > CAP - len);
    let r = heap.reserve(n);
    assert!(r.is_err());
    assert!(unchanged(&heap, &s));
    kani::cover!(n > usize::MAX / 8);
    std::mem::forget(heap);
}

#[kani::proof]
#[kani::unwind(10)]
#[kani::stub(InnerHeap::grow, grow_fail)]
fn c30_append_fails_cleanly() {
    let len: usize = kani::any();
    kani::assume(len <= CAP);
    let mut heap = mk_heap(CAP, len);
    let olen: usize = kani::any();
    kani::assume(olen <= 3 && olen > CAP - len);
    let other = mk_heap(3, olen);
    let s = snap(&heap);
    let r = heap.append(&other);
    assert!(r.is_err());
    assert!(unchanged(&heap, &s));
    std::mem::forget(heap);
    std::mem::forget(other);
}

#[kani::proof]
#[kani::unwind(10)]
#[kani::stub(InnerHeap::grow, grow_fail)]
fn c30_copy_slice_fails_cleanly() {
    let len: usize = kani::any();
    kani::assume(len <= CAP);
    let mut heap = mk_heap(CAP, len);
    let a: usize = kani::any();
    let b: usize = kani::any();
    kani::assume(a <= b && b <= len && b - a > CAP - len);
    let s = snap(&heap);
    let r = heap.copy_slice_to_end(a..b);
    assert!(r.is_err());
    assert!(unchanged(&heap, &s));
    std::mem::forget(heap);
}

#[kani::proof]
#[kani::unwind(18)]
#[kani::stub(InnerHeap::grow, grow_fail)]
fn c30_copy_pstr_fails_cleanly() {
    let len: usize = kani::any();
    kani::assume(len >= 3 && len <= CAP);
    let mut heap = mk_heap(CAP, len);
    let s_len: usize = kani::any();
    kani::assume(s_len >= 1 && s_len <= 7);
    unsafe { plant(&mut heap, 8, s_len, 16, b'a') };
    let s = snap(&heap);
    let r = heap.copy_pstr_within(8);
    if r.is_err() {
        assert!(unchanged(&heap, &s));
        // it may only give up when the copy really does not fit
        let need = if s_len == 7 { 16 } else { 8 };
        assert!(CAP * 8 - s.len < need);
    }
    kani::cover!(r.is_err());
    kani::cover!(r.is_ok());
    std::mem::forget(heap);
}

#[kani::proof]
#[kani::unwind(10)]
#[kani::stub(InnerHeap::grow, grow_fail)]
fn c30_list_builder_fails_cleanly() {
    let len: usize = kani::any();
    kani::assume(len <= CAP);
    let mut heap = mk_heap(CAP, len);
    let s = snap(&heap);
    let size: usize = kani::any();
    kani::assume(size >= 1);
    let vals = [any_cell(), any_cell()];
    let n = if size < 2 { size } else { 2 };
    kani::assume(size <= 2 || size > 1000); // the iterator below yields at most 2 items
    let r = sized_iter_to_heap_list(&mut heap, size, vals[..n].iter().copied());
    let fits = size <= 2 && 1 + 2 * size <= CAP - len;
    match r {
        Ok(cell) => {
            assert!(fits);
            assert!(heap_inv(&heap));
            assert!(heap.inner.byte_len == 8 * (len + 1 + 2 * size));
            assert!(cell == heap_loc_as_cell!(len));
        }
        Err(_) => {
            assert!(!fits);
            assert!(unchanged(&heap, &s));
        }
    }
    kani::cover!(size > usize::MAX / 2);
    kani::cover!(fits);
    std::mem::forget(heap);
}

// allocate_cstr / allocate_pstr: the reservation half. With no room and no growth the call
// fails before anything is written.
#[kani::proof]
#[kani::unwind(10)]
#[kani::stub(InnerHeap::grow, grow_fail)]
fn c30_allocate_str_fails_cleanly() {
    let mut heap = mk_heap(CAP, CAP);
    let s = snap(&heap);
    let r = heap.allocate_cstr("ab");
    assert!(r.is_err());
    assert!(unchanged(&heap, &s));
    let r2 = heap.allocate_pstr("ab");
    assert!(r2.is_err());
    assert!(unchanged(&heap, &s));
    std::mem::forget(heap);
}

// ---- the fault model itself: InnerHeap::grow against the allocator's failure contract ----
// realloc/alloc returning null leave the old block valid and untouched (std::alloc contract);
// grow must then report failure and keep ptr, byte_len and byte_cap (S3 is exactly this contract,
// so every *_fails_cleanly harness above rests on this one).
pub(super) unsafe fn realloc_null(_p: *mut u8, _l: std::alloc::Layout, _n: usize) -> *mut u8 {
    std::ptr::null_mut()
}
pub(super) unsafe fn alloc_null(_l: std::alloc::Layout) -> *mut u8 {
    std::ptr::null_mut()
}

#[kani::proof]
#[kani::unwind(10)]
#[kani::stub(std::alloc::realloc, realloc_null)]
fn c30_grow_keeps_heap_when_realloc_fails() {
    let len: usize = kani::any();
    kani::assume(len <= CAP);
    let mut heap = mk_heap(CAP, len);
    let s = snap(&heap);
    let ok = unsafe { heap.inner.grow() };
    assert!(!ok);
    assert!(unchanged(&heap, &s));
    assert!(heap_inv(&heap));
    std::mem::forget(heap);
}

#[kani::proof]
#[kani::unwind(10)]
fn c30_grow_doubles_when_realloc_succeeds() {
    let len: usize = kani::any();
    kani::assume(len <= CAP);
    let mut heap = mk_heap(CAP, len);
    let (l, c) = (heap.inner.byte_len, heap.inner.byte_cap);
    let ok = unsafe { heap.inner.grow() };
    assert!(ok);
    assert!(heap.inner.byte_len == l && heap.inner.byte_cap == 2 * c && !heap.inner.ptr.is_null());
    std::mem::forget(heap);
}

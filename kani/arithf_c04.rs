// C04 — Ord / PartialEq for Number on the Fixnum and Float arms (src/arithmetic.rs)
#![allow(dead_code, unused_imports)]
use super::*;

fn any_fixnum() -> Fixnum {
    let x: i64 = kani::any();
    kani::assume(x >= Fixnum::MIN && x <= Fixnum::MAX);
    Fixnum::build_with_checked(x).unwrap()
}

fn any_finite() -> f64 {
    let f: f64 = kani::any();
    kani::assume(f.is_finite());
    f
}

fn flt(f: f64) -> Number {
    Number::Float(OrderedFloat(f))
}

/// reference order on finite doubles (no NaN): IEEE comparison, -0.0 == 0.0
fn fcmp(a: f64, b: f64) -> Ordering {
    if a < b {
        Ordering::Less
    } else if a > b {
        Ordering::Greater
    } else {
        Ordering::Equal
    }
}

#[kani::proof]
#[kani::unwind(10)]
fn c04_cmp_fix_fix() {
    let a = any_fixnum();
    let b = any_fixnum();
    let (x, y) = (a.get_num(), b.get_num());
    let (na, nb) = (Number::Fixnum(a), Number::Fixnum(b));
    let want = if x < y { Ordering::Less } else if x > y { Ordering::Greater } else { Ordering::Equal };
    assert!(na.cmp(&nb) == want);
    assert!((na == nb) == (want == Ordering::Equal));
    assert!(nb.cmp(&na) == want.reverse());
    assert!(na.partial_cmp(&nb) == Some(want));
}

// integer vs float: the integer is converted to a double, then compared (as the statement
// prescribes), in both argument orders; eq agrees with cmp
#[kani::proof]
#[kani::unwind(10)]
fn c04_cmp_fix_float() {
    let a = any_fixnum();
    let f = any_finite();
    let na = Number::Fixnum(a);
    let nf = flt(f);
    let want = fcmp(a.get_num() as f64, f);
    assert!(na.cmp(&nf) == want);
    assert!(nf.cmp(&na) == want.reverse());
    assert!((na == nf) == (want == Ordering::Equal));
    assert!((nf == na) == (want == Ordering::Equal));
    kani::cover!(want == Ordering::Equal && a.get_num() > (1 << 53));
}

#[kani::proof]
fn c04_cmp_float_float() {
    let f = any_finite();
    let g = any_finite();
    let want = fcmp(f, g);
    assert!(flt(f).cmp(&flt(g)) == want);
    assert!(flt(g).cmp(&flt(f)) == want.reverse());
    assert!((flt(f) == flt(g)) == (want == Ordering::Equal));
    kani::cover!(f == 0.0 && g == 0.0 && f.is_sign_negative() && !g.is_sign_negative());
}

// transitivity of <= over mixed triples (x fixnum, f float, y fixnum): compares through doubles
#[kani::proof]
#[kani::unwind(10)]
fn c04_transitive_mixed() {
    let a = Number::Fixnum(any_fixnum());
    let f = flt(any_finite());
    let g = flt(any_finite());
    if a <= f && f <= g {
        assert!(a <= g);
    }
    if f <= a && a <= g {
        assert!(f <= g);
    }
}

// PartialOrd<usize> / PartialEq<usize> for Number (used by arg/3, functor/3, length checks)
#[kani::proof]
#[kani::unwind(10)]
fn c04_cmp_usize() {
    let a = any_fixnum();
    let u: usize = kani::any();
    let n = Number::Fixnum(a);
    let x = a.get_num();
    let want = if x < 0 {
        Ordering::Less
    } else if (x as u64) < (u as u64) {
        Ordering::Less
    } else if (x as u64) > (u as u64) {
        Ordering::Greater
    } else {
        Ordering::Equal
    };
    assert!(n.partial_cmp(&u) == Some(want));
    assert!((n == u) == (want == Ordering::Equal));
}

// C02 — float-valued kernels of src/machine/arithmetic_ops.rs: ISO error checks before libm,
// finiteness of whatever libm returns, integer rounding functions.
#![allow(dead_code, unused_imports, static_mut_refs)]
use super::verif_arith_common::*;
use super::*;

static mut TF_CALLS: u32 = 0;
static mut TF_ARG: f64 = 0.0;
fn rec_try_from_f64(f: f64) -> Result<IBig, dashu::base::ConversionError> {
    unsafe {
        TF_CALLS += 1;
        TF_ARG = f;
    }
    Ok(IBig::ZERO)
}

macro_rules! kf {
    ($name:ident, $u:expr, |$arena:ident| $body:block) => {
        #[kani::proof]
        #[kani::unwind($u)]
        #[kani::stub(under_model, under_model_yes)]
        #[kani::stub(arcu::epoch_counters::with_thread_local_epoch_counter, st_epoch)]
        #[kani::stub(crate::machine::machine_state::MachineState::evaluation_error, st_ms_eval_error)]
        #[kani::stub(crate::machine::machine_state::MachineState::error_form, st_ms_error_form)]
        #[kani::stub(zero_divisor_eval_error, st_zero)]
        #[kani::stub(undefined_eval_error, st_undef)]
        #[kani::stub(numerical_type_error, st_type)]
        #[kani::stub(<dashu::integer::IBig as std::convert::From<i64>>::from, rec_from_i64)]
        #[kani::stub(<dashu::integer::IBig as TryFrom<f64>>::try_from, rec_try_from_f64)]
        fn $name() {
            let mut arena_v = crate::arena::verif_arena_common::BareArena::new();
            let $arena = arena_v.get();
            $body;
        }
    };
}

fn any_finite() -> f64 {
    let f: f64 = kani::any();
    kani::assume(f.is_finite());
    f
}

fn flt(f: f64) -> Number {
    Number::Float(OrderedFloat(f))
}

// every unary float function reaches libm only through this template: whatever libm returns,
// the caller sees Ok(y) iff y is finite
kf!(c02_unary_template_float, 10, |_arena| {
    let x = any_finite();
    let y: f64 = kani::any(); // what "libm" returns
    let r = unary_float_fn_template(flt(x), |_f| y);
    match r {
        Ok(v) => assert!(y.is_finite() && v.to_bits() == y.to_bits()),
        Err(_) => assert!(!y.is_finite()),
    }
    kani::cover!(y.is_nan());
    kani::cover!(y.is_infinite());
    std::mem::forget(r);
});

kf!(c02_unary_template_fixnum_arg, 10, |_arena| {
    let a = any_fixnum();
    let y: f64 = kani::any();
    // the closure receives exactly the promoted operand
    let want = a.get_num() as f64;
    let r = unary_float_fn_template(Number::Fixnum(a), |f| {
        assert!(f.to_bits() == want.to_bits());
        y
    });
    match r {
        Ok(v) => assert!(y.is_finite() && v.to_bits() == y.to_bits()),
        Err(_) => assert!(!y.is_finite()),
    }
    std::mem::forget(r);
});

kf!(c02_float_conv, 10, |_arena| {
    let a = any_fixnum();
    match float(Number::Fixnum(a)) {
        Ok(f) => assert!(f.to_bits() == (a.get_num() as f64).to_bits()),
        Err(_) => assert!(false),
    }
    let x = any_finite();
    match float(flt(x)) {
        Ok(f) => assert!(f.to_bits() == x.to_bits()),
        Err(_) => assert!(false),
    }
});

// sqrt of a negative number is undefined *before* libm is consulted; -0.0 is not negative
kf!(c02_sqrt_guard, 10, |_arena| {
    let x = any_finite();
    let r = sqrt(flt(x));
    if x < 0.0 {
        assert!(r.is_err() && err_kind() == 2);
    } else {
        // non-negative finite argument: IEEE sqrt is finite, so Ok
        match r {
            Ok(v) => assert!(v.is_finite() && (v >= 0.0 || v.to_bits() == x.to_bits())),
            Err(_) => assert!(false),
        }
    }
    kani::cover!(x == 0.0 && x.is_sign_negative());
    std::mem::forget(r);
});

kf!(c02_sqrt_guard_fixnum, 10, |_arena| {
    let a = any_fixnum();
    let r = sqrt(Number::Fixnum(a));
    if a.get_num() < 0 {
        assert!(r.is_err() && err_kind() == 2);
    } else {
        assert!(r.is_ok());
    }
    std::mem::forget(r);
});

// atan2(0, 0) in any zero representation is undefined
kf!(c02_atan2_guard, 10, |_arena| {
    let r1 = atan2(fx(0), fx(0));
    assert!(r1.is_err() && err_kind() == 2);
    let r2 = atan2(flt(-0.0), flt(0.0));
    assert!(r2.is_err());
    let r3 = atan2(fx(0), flt(-0.0));
    assert!(r3.is_err());
    let r4 = atan2(flt(0.0), fx(0));
    assert!(r4.is_err());
    std::mem::forget(r1);
    std::mem::forget(r2);
    std::mem::forget(r3);
    std::mem::forget(r4);
});

// division: a zero divisor of every representation -> zero_divisor, and nothing else is
// reported as a zero divisor (the quotient itself is IEEE `/`, see c02_div_f)
kf!(c02_div_guard, 10, |_arena| {
    let x = any_finite();
    let d = any_finite();
    let r = div(flt(x), flt(d));
    if d == 0.0 {
        assert!(r.is_err() && err_kind() == 1);
    } else {
        assert!(err_kind() != 1);
    }
    kani::cover!(d == 0.0 && d.is_sign_negative());
    std::mem::forget(r);
});

kf!(c02_div_guard_fixnum_zero, 10, |_arena| {
    let a = any_fixnum();
    let r = div(Number::Fixnum(a), fx(0));
    assert!(r.is_err() && err_kind() == 1);
    let x = any_finite();
    let r2 = div(flt(x), fx(0));
    assert!(r2.is_err());
    std::mem::forget(r);
    std::mem::forget(r2);
});

// 0 ** negative and 0 ^ negative are undefined for float operands too
kf!(c02_pow_zero_negative, 10, |arena| {
    let e = any_finite();
    kani::assume(e < 0.0);
    let zneg: bool = kani::any();
    let z = if zneg { -0.0 } else { 0.0 };
    let r = pow(flt(z), flt(e), atom!("**"));
    assert!(r.is_err() && err_kind() == 2);
    let r2 = int_pow(flt(z), flt(e), arena);
    assert!(r2.is_err() && err_kind() == 2);
    let a = any_fixnum();
    kani::assume(a.get_num() < 0);
    let r3 = pow(fx(0), Number::Fixnum(a), atom!("**"));
    assert!(r3.is_err() && err_kind() == 2);
    std::mem::forget(r);
    std::mem::forget(r2);
    std::mem::forget(r3);
});

// ---- floor / ceiling / truncate / round on floats ----
const LIM: f64 = 36028797018963968.0; // 2^55

fn result_fix(r: Number) -> Option<i64> {
    match r {
        Number::Fixnum(f) => Some(f.get_num()),
        _ => None,
    }
}

kf!(c02_floor, 10, |arena| {
    let x = any_finite();
    let r = floor(flt(x), arena);
    match result_fix(r) {
        Some(v) => {
            assert!(x < LIM && x >= -LIM);
            let vf = v as f64;
            assert!((vf as i64) == v);
            assert!(vf <= x && (x < vf + 1.0 || x == vf));
        }
        None => {
            assert!(matches!(r, Number::Integer(_)));
            assert!(x >= LIM || x < -LIM);
        }
    }
    kani::cover!(x == LIM);
    kani::cover!(x > -1.0 && x < 0.0);
});

kf!(c02_ceiling, 10, |arena| {
    let x = any_finite();
    // ceiling = -floor(-x); keep clear of the boundary where -floor(-x) = 2^55 needs the
    // Integer arm of neg (bignum operand, outside): |x| < 2^55 - 1 or |x| > 2^55
    kani::assume(x > -LIM && x < LIM - 1.0);
    let r = ceiling(flt(x), arena);
    match result_fix(r) {
        Some(v) => {
            let vf = v as f64;
            assert!((vf as i64) == v);
            assert!(vf >= x && (x > vf - 1.0 || x == vf));
        }
        None => assert!(false),
    }
    kani::cover!(x > 0.0 && x < 1.0);
});

kf!(c02_truncate, 10, |arena| {
    let x = any_finite();
    kani::assume(x > -LIM + 1.0 && x < LIM);
    let r = truncate(flt(x), arena);
    match result_fix(r) {
        Some(v) => {
            let vf = v as f64;
            assert!((vf as i64) == v);
            if x >= 0.0 {
                assert!(vf <= x && (x < vf + 1.0 || x == vf));
            } else {
                assert!(vf >= x && (x > vf - 1.0 || x == vf));
            }
        }
        None => assert!(false),
    }
    kani::cover!(x < 0.0 && x > -1.0);
});

kf!(c02_round, 10, |arena| {
    let x = any_finite();
    let r = round(flt(x), arena);
    match r {
        Ok(n) => match result_fix(n) {
            Some(v) => {
                assert!(x < LIM && x >= -LIM - 0.5);
                let vf = v as f64;
                assert!((vf as i64) == v);
                // nearest integer: |x - v| <= 1/2 written without inexact subtraction
                assert!((vf - 0.5 <= x && x <= vf + 0.5) || x == vf);
            }
            None => {
                assert!(matches!(n, Number::Integer(_)));
                assert!(x >= LIM - 0.5 || x < -LIM);
            }
        },
        Err(_) => assert!(false),
    }
    kani::cover!(x == 2.5);
    kani::cover!(x == LIM);
    std::mem::forget(r);
});

// mixed min/max: compared as doubles
kf!(c02_min_max_mixed, 10, |_arena| {
    let a = any_fixnum();
    let f = any_finite();
    let af = a.get_num() as f64;
    match max(Number::Fixnum(a), flt(f)) {
        Ok(Number::Fixnum(r)) => assert!(af > f && r.get_num() == a.get_num()),
        Ok(Number::Float(OrderedFloat(r))) => assert!(af <= f && r.to_bits() == f.to_bits()),
        _ => assert!(false),
    }
    match min(Number::Fixnum(a), flt(f)) {
        Ok(Number::Fixnum(r)) => assert!(af < f && r.get_num() == a.get_num()),
        Ok(Number::Float(OrderedFloat(r))) => {
            assert!(af >= f);
            // equal as doubles: the first argument as a float; else the float operand
            assert!(r.to_bits() == f.to_bits() || (af == f && r.to_bits() == af.to_bits()));
        }
        _ => assert!(false),
    }
});

kf!(c02_neg_abs_sign_float, 10, |arena| {
    let f = any_finite();
    match neg(flt(f), arena) {
        Number::Float(OrderedFloat(r)) => assert!(r.to_bits() == (-f).to_bits()),
        _ => assert!(false),
    }
    match abs(flt(f), arena) {
        Number::Float(OrderedFloat(r)) => assert!(r.to_bits() == f.abs().to_bits()),
        _ => assert!(false),
    }
    match flt(f).sign() {
        Number::Float(OrderedFloat(r)) => {
            if f > 0.0 {
                assert!(r == 1.0);
            } else if f < 0.0 {
                assert!(r == -1.0);
            } else {
                assert!(r == 0.0);
            }
        }
        _ => assert!(false),
    }
});

// mixed + and * promote the fixnum with `as f64` and apply the IEEE operation
kf!(c02_add_mul_mixed, 10, |arena| {
    let a = any_fixnum();
    let f = any_finite();
    let af = a.get_num() as f64;
    let s = af + f;
    match add(Number::Fixnum(a), flt(f), arena) {
        Ok(Number::Float(OrderedFloat(v))) => assert!(s.is_finite() && v.to_bits() == s.to_bits()),
        Ok(_) => assert!(false),
        Err(e) => assert!(!s.is_finite() && matches!(e, EvalError::FloatOverflow)),
    }
});

kf!(c02_add_mixed_swapped, 10, |arena| {
    let a = any_fixnum();
    let f = any_finite();
    let af = a.get_num() as f64;
    let s = af + f;
    match add(flt(f), Number::Fixnum(a), arena) {
        Ok(Number::Float(OrderedFloat(v))) => assert!(s.is_finite() && v.to_bits() == s.to_bits()),
        Ok(_) => assert!(false),
        Err(e) => assert!(!s.is_finite() && matches!(e, EvalError::FloatOverflow)),
    }
});

kf!(c02_mul_mixed, 10, |arena| {
    let a = any_fixnum();
    let f = any_finite();
    let af = a.get_num() as f64;
    let p = af * f;
    match mul(Number::Fixnum(a), flt(f), arena) {
        Ok(Number::Float(OrderedFloat(v))) => assert!(p.is_finite() && v.to_bits() == p.to_bits()),
        Ok(_) => assert!(false),
        Err(e) => assert!(!p.is_finite() && matches!(e, EvalError::FloatOverflow)),
    }
});

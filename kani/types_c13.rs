// C13 — standard order: term category of every cell kind, and the category order
// (child module of src/types.rs)
#![allow(dead_code, unused_imports)]
use super::*;
use crate::machine::machine_indices::TermOrderCategory as Cat;

fn heap4() -> Heap {
    let mut heap = Heap::with_cell_capacity(4).unwrap();
    heap.push_cell(empty_list_as_cell!()).unwrap();
    heap
}

#[kani::proof]
fn c13_category_order() {
    assert!(Cat::Variable < Cat::FloatingPoint);
    assert!(Cat::FloatingPoint < Cat::Integer);
    assert!(Cat::Integer < Cat::Atom);
    assert!(Cat::Atom < Cat::Compound);
}

#[kani::proof]
#[kani::unwind(10)]
fn c13_category_str_and_atom() {
    let mut heap = heap4();
    let arity: u8 = kani::any();
    heap.push_cell(atom_as_cell!(atom!("f"), arity as usize)).unwrap();
    let by_str = str_loc_as_cell!(1).order_category(&heap);
    let direct = atom_as_cell!(atom!("f"), arity as usize).order_category(&heap);
    if arity == 0 {
        assert!(by_str == Some(Cat::Atom) && direct == Some(Cat::Atom));
    } else {
        assert!(by_str == Some(Cat::Compound) && direct == Some(Cat::Compound));
    }
    std::mem::forget(heap);
}

#[kani::proof]
#[kani::unwind(10)]
fn c13_category_leaf_cells() {
    let heap = heap4();
    let n: i64 = kani::any();
    kani::assume(n >= Fixnum::MIN && n <= Fixnum::MAX);
    let f = fixnum_as_cell!(Fixnum::build_with_checked(n).unwrap());
    assert!(f.order_category(&heap) == Some(Cat::Integer));
    let h: usize = kani::any();
    kani::assume(h < (1usize << 40));
    assert!(heap_loc_as_cell!(h).order_category(&heap) == Some(Cat::Variable));
    assert!(attr_var_as_cell!(h).order_category(&heap) == Some(Cat::Variable));
    assert!(stack_loc_as_cell!(h).order_category(&heap) == Some(Cat::Variable));
    assert!(list_loc_as_cell!(h).order_category(&heap) == Some(Cat::Compound));
    assert!(pstr_loc_as_cell!(h).order_category(&heap) == Some(Cat::Compound));
    assert!(empty_list_as_cell!().order_category(&heap) == Some(Cat::Atom));
    std::mem::forget(heap);
}

// bignum and rational cells are in the same class as fixnums (read through the real arena
// slab header)
#[kani::proof]
#[kani::unwind(10)]
fn c13_category_bignum() {
    let heap = heap4();
    let mut arena = Arena::new().unwrap();
    let v: i64 = kani::any();
    let p: TypedArenaPtr<crate::parser::dashu::Integer> =
        crate::arena::AllocateInArena::arena_allocate(crate::parser::dashu::Integer::from(v), &mut arena);
    let c = typed_arena_ptr_as_cell!(p);
    assert!(c.order_category(&heap) == Some(Cat::Integer));
    std::mem::forget(heap);
    std::mem::forget(arena);
}

// Shared stubs / recorders for the arithmetic kernel harnesses (C01, C02, C04, C05).
// Child module of src/machine/arithmetic_ops.rs.
#![allow(dead_code, unused_imports, static_mut_refs)]
use super::*;

pub(super) const FMIN: i128 = Fixnum::MIN as i128;
pub(super) const FMAX: i128 = Fixnum::MAX as i128;

/// true only under the model checker: `under_model` is stubbed by `under_model_yes` in every
/// harness; a native concrete-playback run (stubs are not applied there) sees `false` and the
/// harness then checks bignum *values* with the real dashu instead of the recorded operands.
pub(super) fn under_model() -> bool {
    false
}
pub(super) fn under_model_yes() -> bool {
    true
}

// ---- S1: arcu's thread-local epoch counter (TLS destructor => Kani ICE) ----
pub(super) static VERIF_EPOCH: arcu::epoch_counters::EpochCounter =
    arcu::epoch_counters::EpochCounter::new();
pub(super) fn st_epoch<T>(fun: impl FnOnce(&arcu::epoch_counters::EpochCounter) -> T) -> T {
    fun(&VERIF_EPOCH)
}

// ---- S5b: the machine-side halves of error closures are never run by a kernel harness ----
pub(super) fn st_ms_eval_error(_ms: &mut MachineState, _e: EvalError) -> MachineError {
    kani::assume(false);
    unreachable!()
}
pub(super) fn st_ms_error_form(
    _ms: &mut MachineState,
    _e: MachineError,
    _s: MachineStub,
) -> MachineStub {
    kani::assume(false);
    unreachable!()
}

pub(super) fn any_fixnum() -> Fixnum {
    let x: i64 = kani::any();
    kani::assume(x >= Fixnum::MIN && x <= Fixnum::MAX);
    Fixnum::build_with_checked(x).unwrap()
}

pub(super) fn fx(x: i64) -> Number {
    Number::Fixnum(Fixnum::build_with_checked(x).unwrap())
}

pub(super) fn fits(v: i128) -> bool {
    v >= FMIN && v <= FMAX
}

// ---- S5: error constructors end the error path right after the check they guard ----
pub(super) static mut ERR_KIND: u8 = 0; // 1 zero_divisor, 2 undefined, 3 type_error
pub(super) static mut ERR_VALID_TYPE_IS_INTEGER: bool = false;
pub(super) static mut ERR_VALID_TYPE_IS_FLOAT: bool = false;

pub(super) fn st_zero(_g: impl Fn() -> MachineStub + 'static) -> MachineStubGen {
    unsafe { ERR_KIND = 1 };
    Box::new(|_ms| vec![])
}
pub(super) fn st_undef(_g: impl Fn() -> MachineStub + 'static) -> MachineStubGen {
    unsafe { ERR_KIND = 2 };
    Box::new(|_ms| vec![])
}
pub(super) fn st_type(
    v: ValidType,
    _n: Number,
    _g: impl Fn() -> MachineStub + 'static,
) -> MachineStubGen {
    unsafe {
        ERR_KIND = 3;
        ERR_VALID_TYPE_IS_INTEGER = matches!(v, ValidType::Integer);
        ERR_VALID_TYPE_IS_FLOAT = matches!(v, ValidType::Float);
    };
    Box::new(|_ms| vec![])
}
pub(super) fn err_kind() -> u8 {
    unsafe { ERR_KIND }
}

// ---- S4: recording models of the dashu entry points reached by Fixnum x Fixnum kernels ----
pub(super) static mut FROM_CALLS: u32 = 0;
pub(super) static mut FROM_ARG: i64 = 0;
pub(super) static mut FROM_ARG_PREV: i64 = 0;
/// replaces <IBig as From<i64>>::from in the fallback harnesses
pub(super) fn rec_from_i64(v: i64) -> IBig {
    unsafe {
        FROM_CALLS += 1;
        FROM_ARG_PREV = FROM_ARG;
        FROM_ARG = v;
    }
    IBig::ZERO
}
/// replaces <IBig as From<isize>>::from (Number::arena_from::<isize>, gcd)
pub(super) fn rec_from_isize(v: isize) -> IBig {
    rec_from_i64(v as i64)
}
pub(super) fn from_arg_prev() -> i128 {
    unsafe { FROM_ARG_PREV as i128 }
}

pub(super) static mut POW_CALLS: u32 = 0;
/// replaces crate::arithmetic::binary_pow (a loop over dashu operators): counts the call; its
/// operands were built by the recorded From<i64> calls
pub(super) fn rec_binary_pow(n: Integer, _power: &Integer) -> Integer {
    unsafe { POW_CALLS += 1 };
    std::mem::forget(n);
    IBig::ZERO
}
pub(super) fn pow_calls() -> u32 {
    unsafe { POW_CALLS }
}
pub(super) fn from_calls() -> u32 {
    unsafe { FROM_CALLS }
}
pub(super) fn from_arg() -> i128 {
    unsafe { FROM_ARG as i128 }
}

pub(super) static mut OP_CALLS: u32 = 0;
pub(super) static mut OP_A: i128 = 0;
pub(super) static mut OP_B: i128 = 0;
fn rec2(a: &IBig, b: &IBig) {
    unsafe {
        OP_CALLS += 1;
        OP_A = i128::try_from(a).unwrap();
        OP_B = i128::try_from(b).unwrap();
    }
}
pub(super) fn op_calls() -> u32 {
    unsafe { OP_CALLS }
}
pub(super) fn op_a() -> i128 {
    unsafe { OP_A }
}
pub(super) fn op_b() -> i128 {
    unsafe { OP_B }
}
/// owned x owned binary operator (Mul, Div): record operands, return 0
pub(super) fn rec_op_vv(a: IBig, b: IBig) -> IBig {
    rec2(&a, &b);
    std::mem::forget(a);
    std::mem::forget(b);
    IBig::ZERO
}
/// IBig << usize / IBig >> usize
pub(super) fn rec_shift(a: IBig, s: usize) -> IBig {
    unsafe {
        OP_CALLS += 1;
        OP_A = i128::try_from(&a).unwrap();
        OP_B = s as i128;
    }
    std::mem::forget(a);
    IBig::ZERO
}

/// result of an integer kernel whose exact value is `exact`, where an out-of-fixnum-range
/// result must have gone through `Integer::from(i64)` (recorded) exactly once
pub(super) fn check_via_from(r: Number, exact: i128) {
    match r {
        Number::Fixnum(f) => {
            assert!(fits(exact));
            assert!(f.get_num() as i128 == exact);
            if under_model() {
                assert!(from_calls() == 0);
            }
        }
        Number::Integer(i) => {
            assert!(!fits(exact));
            if under_model() {
                assert!(from_calls() == 1);
                assert!(from_arg() == exact);
            } else {
                assert!(i128::try_from(&*i) == Ok(exact));
            }
        }
        _ => assert!(false),
    }
}

// C55 — writeq quoting decision, escapes, token separation, operator bracketing
// (child module of src/heap_print.rs)
#![allow(dead_code, unused_imports, static_mut_refs)]
use super::*;

static VERIF_EPOCH: arcu::epoch_counters::EpochCounter = arcu::epoch_counters::EpochCounter::new();
fn st_epoch<T>(fun: impl FnOnce(&arcu::epoch_counters::EpochCounter) -> T) -> T {
    fun(&VERIF_EPOCH)
}

// ---- ISO 6.4.2 / 6.5 restated over ASCII bytes, independently of the crate's macros ----
fn r_small(c: u8) -> bool {
    c >= b'a' && c <= b'z'
}
fn r_alnum(c: u8) -> bool {
    (c >= b'a' && c <= b'z') || (c >= b'A' && c <= b'Z') || (c >= b'0' && c <= b'9') || c == b'_'
}
fn r_graphic(c: u8) -> bool {
    matches!(
        c,
        b'#' | b'$' | b'&' | b'*' | b'+' | b'-' | b'.' | b'/' | b':' | b'<' | b'=' | b'>' | b'?'
            | b'@' | b'^' | b'~' | b'\\'
    )
}

/// may the atom with this text be written without quotes?
fn r_unquoted(s: &[u8]) -> bool {
    let n = s.len();
    if n == 0 {
        return false;
    }
    if r_small(s[0]) {
        let mut i = 1;
        while i < n {
            if !r_alnum(s[i]) {
                return false;
            }
            i += 1;
        }
        return true;
    }
    if r_graphic(s[0]) {
        let mut i = 1;
        while i < n {
            if !r_graphic(s[i]) {
                return false;
            }
            i += 1;
        }
        if n == 1 && s[0] == b'.' {
            return false; // end token
        }
        if n >= 2 && s[0] == b'/' && s[1] == b'*' {
            return false; // comment open
        }
        return true;
    }
    if n == 1 && (s[0] == b'!' || s[0] == b';') {
        return true;
    }
    if n == 2 && ((s[0] == b'[' && s[1] == b']') || (s[0] == b'{' && s[1] == b'}')) {
        return true;
    }
    false
}

macro_rules! quoting {
    ($name:ident, $L:expr) => {
        #[kani::proof]
        #[kani::unwind(8)]
        fn $name() {
            let b: [u8; $L] = kani::any();
            let mut i = 0;
            while i < $L {
                kani::assume(b[i] < 128);
                i += 1;
            }
            let s = unsafe { std::str::from_utf8_unchecked(&b) };
            let got = non_quoted_token(s.chars());
            assert!(got == r_unquoted(&b));
            kani::cover!(got);
            kani::cover!(!got);
        }
    };
}
quoting!(c55_quoting_len1, 1);
quoting!(c55_quoting_len2, 2);
quoting!(c55_quoting_len3, 3);
quoting!(c55_quoting_len4, 4);

#[kani::proof]
#[kani::unwind(4)]
fn c55_quoting_empty() {
    assert!(!non_quoted_token("".chars()));
}

// one arbitrary scalar value (any plane) in front of / behind ASCII: never panics, and a
// non-ASCII letter-like first char is only accepted if it is alphabetic and not uppercase
#[kani::proof]
#[kani::unwind(40)]
fn c55_quoting_non_ascii_head() {
    let c: char = kani::any();
    kani::assume((c as u32) >= 128 && (c as u32) < 0x250); // Latin-1 sup., Latin ext. A/B
    let t: u8 = kani::any();
    kani::assume(t < 128);
    let arr = [c, t as char];
    let got = non_quoted_token(arr.iter().copied());
    if got {
        // must have been taken as a letter-digit token
        assert!(c.is_alphabetic() && !c.is_uppercase());
        assert!(r_alnum(t));
    }
}

/// S8: the hex-escape arm builds its text with format!; that arm is excluded by the harnesses
/// below, and the formatting machinery is cut out of the model
fn fmt_stub(_args: std::fmt::Arguments<'_>) -> String {
    String::new()
}

// ---- escapes inside quoted atoms (6.4.2.1) ----
#[kani::proof]
#[kani::unwind(8)]
#[kani::stub(std::fmt::format, fmt_stub)]
fn c55_char_to_string_quoted_ascii() {
    let c: u8 = kani::any();
    kani::assume(c < 128);
    kani::assume(
        // the hex-escape branch goes through format!; it is checked in its own harness
        !(c < 32 || c == 127) || matches!(c, 7 | 8 | 9 | 10 | 11 | 12 | 13),
    );
    let s = char_to_string(true, c as char);
    let b = s.as_bytes();
    let want: (u8, u8, usize) = match c {
        b'\'' => (b'\\', b'\'', 2),
        b'\n' => (b'\\', b'n', 2),
        b'\r' => (b'\\', b'r', 2),
        b'\t' => (b'\\', b't', 2),
        11 => (b'\\', b'v', 2),
        12 => (b'\\', b'f', 2),
        8 => (b'\\', b'b', 2),
        7 => (b'\\', b'a', 2),
        b'\\' => (b'\\', b'\\', 2),
        _ => (c, 0, 1),
    };
    assert!(b.len() == want.2);
    assert!(b[0] == want.0);
    if want.2 == 2 {
        assert!(b[1] == want.1);
    }
    std::mem::forget(s);
}

// unquoted context: every printable ASCII char is passed through unchanged
#[kani::proof]
#[kani::unwind(8)]
#[kani::stub(std::fmt::format, fmt_stub)]
fn c55_char_to_string_unquoted_ascii() {
    let c: u8 = kani::any();
    kani::assume(c >= 32 && c < 127);
    let s = char_to_string(false, c as char);
    let b = s.as_bytes();
    assert!(b.len() == 1 && b[0] == c);
    std::mem::forget(s);
}

// ---- token separation ----
fn r_space_required(ac: u8, oc: u8) -> bool {
    (r_alnum(ac) && r_alnum(oc))                      // would merge into one name/number/variable
        || (r_alnum(ac) && oc == b'(')                // would become functional notation
        || (r_graphic(ac) && r_graphic(oc))           // would merge into one graphic token
        || (ac == b'0' && oc == b'\'')                // would start a 0'c character literal
        || (ac == b'\'' && oc == b'\'')               // would read as an escaped quote
    // (a sign followed by a digit is NOT decided here: HCPrinter brackets the operand of a
    // prefix minus - `- (1)` - so requires_space may say no; observed on the binary)
}

#[kani::proof]
#[kani::unwind(8)]
fn c55_requires_space_sufficient() {
    let a: [u8; 2] = kani::any();
    let o: [u8; 2] = kani::any();
    kani::assume(a[0] < 128 && a[1] < 128 && o[0] < 128 && o[1] < 128);
    kani::assume(a[1] >= 32 && o[0] >= 32);
    let sa = unsafe { std::str::from_utf8_unchecked(&a) };
    let so = unsafe { std::str::from_utf8_unchecked(&o) };
    let got = requires_space(sa, so);
    if r_space_required(a[1], o[0]) {
        assert!(got);
    }
    // and it never asks for a space after nothing / before nothing
    assert!(!requires_space("", so));
    assert!(!requires_space(sa, ""));
    kani::cover!(got);
    kani::cover!(!got);
}

// ---- operator bracketing ----
fn any_spec() -> OpDeclSpec {
    let k: u8 = kani::any();
    kani::assume(k < 7);
    match k {
        0 => XFX,
        1 => XFY,
        2 => YFX,
        3 => XF,
        4 => YF,
        5 => FX,
        _ => FY,
    }
}

fn needs_bracketing_body(minus: bool) {
    let cp: u16 = kani::any();
    let pp: u16 = kani::any();
    kani::assume(cp <= 1200 && pp <= 1200);
    let cs = any_spec();
    let ps = any_spec();
    let child = OpDesc::build_with(cp, cs);
    let parent = OpDesc::build_with(pp, ps);
    let name = if minus { atom!("-") } else { atom!("+") };
    // child as the right-hand / only-after argument of the parent operator
    let right_bound = if matches!(ps, XFX | YFX | FX) { pp as i32 - 1 } else { pp as i32 };
    let got_r = needs_bracketing(child, &DirectedOp::Left(name, parent));
    if (cp as i32) > right_bound {
        assert!(got_r);
    }
    // child as the left-hand argument
    let left_bound = if matches!(ps, XFX | XFY | XF) { pp as i32 - 1 } else { pp as i32 };
    let got_l = needs_bracketing(child, &DirectedOp::Right(name, parent));
    if (cp as i32) > left_bound {
        assert!(got_l);
    }
    // an operand of strictly lower priority never needs brackets for priority reasons
    // (the explicit `- (infix/postfix)` rule aside)
    if (cp as i32) < pp as i32 && !minus {
        assert!(!got_r && !got_l);
    }
    kani::cover!(got_r && !got_l);
    kani::cover!(got_l && !got_r);
}

#[kani::proof]
#[kani::unwind(12)]
#[kani::stub(arcu::epoch_counters::with_thread_local_epoch_counter, st_epoch)]
fn c55_needs_bracketing_plus() {
    needs_bracketing_body(false);
}

#[kani::proof]
#[kani::unwind(12)]
#[kani::stub(arcu::epoch_counters::with_thread_local_epoch_counter, st_epoch)]
fn c55_needs_bracketing_minus() {
    needs_bracketing_body(true);
}

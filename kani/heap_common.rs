// Shared helpers for the Heap harness families (C20, C30, C33).
// Child module of src/machine/heap.rs: sees InnerHeap, ReservedHeapSection, private fns.
#![allow(dead_code, unused_imports)]
use super::*;

/// S3: replacement for `InnerHeap::grow` — realloc's failure contract: returns false,
/// leaves the heap untouched.
pub(super) unsafe fn grow_fail(_h: &mut InnerHeap) -> bool {
    false
}

/// A heap with `cap` cells of capacity of which `len` are in use (contents: whatever the
/// allocator returned = nondeterministic for CBMC).
pub(super) fn mk_heap(cap_cells: usize, len_cells: usize) -> Heap {
    let mut h = Heap::with_cell_capacity(cap_cells).unwrap();
    h.inner.byte_len = heap_index!(len_cells);
    h
}

/// the representation invariant of `Heap` that every operation must preserve
pub(super) fn heap_inv(h: &Heap) -> bool {
    h.inner.byte_len <= h.inner.byte_cap
        && h.inner.byte_len % 8 == 0
        && h.inner.byte_cap % 8 == 0
        && (!h.inner.ptr.is_null() || h.inner.byte_cap == 0)
}

/// plant `s_len` non-NUL bytes followed by NULs (up to `upto`) at byte offset `at`
pub(super) unsafe fn plant(h: &mut Heap, at: usize, s_len: usize, upto: usize, fill: u8) {
    let mut i = 0;
    while i < upto {
        unsafe { *h.inner.ptr.add(at + i) = if i < s_len { fill } else { 0 } };
        i += 1;
    }
}

pub(super) fn any_cell() -> HeapCellValue {
    HeapCellValue::from_bytes(kani::any::<[u8; 8]>())
}

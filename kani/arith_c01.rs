// C01 — integer arithmetic kernels, Fixnum x Fixnum arms and the Fixnum -> bignum fallbacks.
#![allow(dead_code, unused_imports, static_mut_refs)]
use super::verif_arith_common::*;
use super::*;

type FromI64 = fn(i64) -> IBig;

macro_rules! k {
    // $u: unwind; harness body gets an arena
    ($name:ident, $u:expr, |$arena:ident| $body:block) => {
        #[kani::proof]
        #[kani::unwind($u)]
        #[kani::stub(under_model, under_model_yes)]
        #[kani::stub(arcu::epoch_counters::with_thread_local_epoch_counter, st_epoch)]
        #[kani::stub(crate::machine::machine_state::MachineState::evaluation_error, st_ms_eval_error)]
        #[kani::stub(crate::machine::machine_state::MachineState::error_form, st_ms_error_form)]
        #[kani::stub(zero_divisor_eval_error, st_zero)]
        #[kani::stub(undefined_eval_error, st_undef)]
        #[kani::stub(numerical_type_error, st_type)]
        #[kani::stub(<dashu::integer::IBig as std::convert::From<i64>>::from, rec_from_i64)]
        #[kani::stub(<dashu::integer::IBig as std::convert::From<isize>>::from, rec_from_isize)]
        #[kani::stub(crate::arithmetic::binary_pow, rec_binary_pow)]
        fn $name() {
            let mut arena_v = crate::arena::verif_arena_common::BareArena::new();
            let $arena = arena_v.get();
            $body;
        }
    };
}

// S10: sub = add(lhs, neg(rhs)). For rhs != MIN neg(rhs) is a fixnum (c01_neg checks neg on its own,
// including MIN -> 2^55 as a bignum); the model below is neg restricted to that case, so that the
// Fixnum x Integer arm of add (a TypedArenaPtr deref, DESIGN P18) is not entered on the
// assumed-away MIN path, which CBMC would otherwise still have to encode.
pub(super) fn neg_fixnum_not_min(n: Number, _arena: &mut Arena) -> Number {
    match n {
        Number::Fixnum(f) => {
            kani::assume(f.get_num() != Fixnum::MIN);
            Number::Fixnum(Fixnum::build_with_checked(-f.get_num()).unwrap())
        }
        _ => {
            kani::assume(false);
            n
        }
    }
}

macro_rules! k_negstub {
    ($name:ident, $u:expr, |$arena:ident| $body:block) => {
        #[kani::proof]
        #[kani::unwind($u)]
        #[kani::stub(under_model, under_model_yes)]
        #[kani::stub(arcu::epoch_counters::with_thread_local_epoch_counter, st_epoch)]
        #[kani::stub(crate::machine::machine_state::MachineState::evaluation_error, st_ms_eval_error)]
        #[kani::stub(crate::machine::machine_state::MachineState::error_form, st_ms_error_form)]
        #[kani::stub(zero_divisor_eval_error, st_zero)]
        #[kani::stub(undefined_eval_error, st_undef)]
        #[kani::stub(numerical_type_error, st_type)]
        #[kani::stub(<dashu::integer::IBig as std::convert::From<i64>>::from, rec_from_i64)]
        #[kani::stub(<dashu::integer::IBig as std::convert::From<isize>>::from, rec_from_isize)]
        #[kani::stub(crate::arithmetic::binary_pow, rec_binary_pow)]
        #[kani::stub(neg, neg_fixnum_not_min)]
        fn $name() {
            let mut arena_v = crate::arena::verif_arena_common::BareArena::new();
            let $arena = arena_v.get();
            $body;
        }
    };
}

k!(c01_add, 10, |arena| {
    let a = any_fixnum();
    let b = any_fixnum();
    let exact = a.get_num() as i128 + b.get_num() as i128;
    let r = add(Number::Fixnum(a), Number::Fixnum(b), arena);
    match r {
        Ok(r) => check_via_from(r, exact),
        Err(_) => assert!(false),
    }
    kani::cover!(!fits(exact) && exact > 0);
    kani::cover!(!fits(exact) && exact < 0);
    kani::cover!(exact == FMAX);
});

k_negstub!(c01_sub, 10, |arena| {
    let a = any_fixnum();
    let b = any_fixnum();
    // b == MIN makes neg(b) a bignum and the Fixnum x Integer arm reads it back through
    // TypedArenaPtr::deref, which Kani mis-models (DESIGN P18): outside the claim
    kani::assume(b.get_num() != Fixnum::MIN);
    let exact = a.get_num() as i128 - b.get_num() as i128;
    let r = sub(Number::Fixnum(a), Number::Fixnum(b), arena);
    match r {
        Ok(r) => check_via_from(r, exact),
        Err(_) => assert!(false),
    }
    kani::cover!(!fits(exact) && exact > 0);
    kani::cover!(!fits(exact) && exact < 0);
});

k!(c01_neg, 10, |arena| {
    let a = any_fixnum();
    let exact = -(a.get_num() as i128);
    let r = neg(Number::Fixnum(a), arena);
    check_via_from(r, exact);
    kani::cover!(!fits(exact));
});

k!(c01_abs, 10, |arena| {
    let a = any_fixnum();
    let x = a.get_num() as i128;
    let exact = if x < 0 { -x } else { x };
    let r = abs(Number::Fixnum(a), arena);
    check_via_from(r, exact);
    kani::cover!(!fits(exact));
});

k!(c01_sign, 10, |_arena| {
    let a = any_fixnum();
    let x = a.get_num();
    let r = Number::Fixnum(a).sign();
    let want = if x > 0 { 1 } else if x < 0 { -1 } else { 0 };
    match r {
        Number::Fixnum(f) => assert!(f.get_num() == want),
        _ => assert!(false),
    }
});

k!(c01_min_max, 10, |_arena| {
    let a = any_fixnum();
    let b = any_fixnum();
    let (x, y) = (a.get_num(), b.get_num());
    match max(Number::Fixnum(a), Number::Fixnum(b)) {
        Ok(Number::Fixnum(f)) => assert!(f.get_num() == if x > y { x } else { y }),
        _ => assert!(false),
    }
    match min(Number::Fixnum(a), Number::Fixnum(b)) {
        Ok(Number::Fixnum(f)) => assert!(f.get_num() == if x < y { x } else { y }),
        _ => assert!(false),
    }
});

k!(c01_bitops, 10, |arena| {
    let a = any_fixnum();
    let b = any_fixnum();
    let (x, y) = (a.get_num(), b.get_num());
    match and(Number::Fixnum(a), Number::Fixnum(b), arena) {
        Ok(r) => check_via_from(r, (x & y) as i128),
        Err(_) => assert!(false),
    }
    match or(Number::Fixnum(a), Number::Fixnum(b), arena) {
        Ok(r) => check_via_from(r, (x | y) as i128),
        Err(_) => assert!(false),
    }
    match xor(Number::Fixnum(a), Number::Fixnum(b), arena) {
        Ok(r) => check_via_from(r, (x ^ y) as i128),
        Err(_) => assert!(false),
    }
    match bitwise_complement(Number::Fixnum(a), arena) {
        Ok(r) => check_via_from(r, -(x as i128) - 1),
        Err(_) => assert!(false),
    }
});

// ---- multiplication: fits-i64 path (result through fixnum!) ----
macro_rules! mul_small {
    ($name:ident, $bx:expr, $by:expr) => {
        mul_small!($name, $bx, $by, i128);
    };
    // $t: integer type of the oracle arithmetic; it must hold 2^($bx + $by) (a narrower
    // multiplier is a much smaller SAT problem than the 128-bit one)
    ($name:ident, $bx:expr, $by:expr, $t:ty) => {
        k!($name, 10, |arena| {
            let a = any_fixnum();
            let b = any_fixnum();
            kani::assume(a.get_num() > -(1i64 << $bx) && a.get_num() < (1i64 << $bx));
            kani::assume(b.get_num() > -(1i64 << $by) && b.get_num() < (1i64 << $by));
            let (x, y) = (a.get_num() as $t, b.get_num() as $t);
            let exact = (x * y) as i128;
            match mul(Number::Fixnum(a), Number::Fixnum(b), arena) {
                Ok(r) => check_via_from(r, exact),
                Err(_) => assert!(false),
            }
        });
    };
}
mul_small!(c01_mul_16x16, 16, 16, i64);
mul_small!(c01_mul_55x7, 55, 7);
mul_small!(c01_mul_7x55, 7, 55);
mul_small!(c01_mul_32x31, 32, 31);

// ---- multiplication: the i64-overflow path delegates to dashu with the right operands ----
#[kani::proof]
#[kani::unwind(10)]
#[kani::stub(under_model, under_model_yes)]
#[kani::stub(arcu::epoch_counters::with_thread_local_epoch_counter, st_epoch)]
#[kani::stub(<dashu::integer::IBig as std::ops::Mul<dashu::integer::IBig>>::mul, rec_op_vv)]
fn c01_mul_overflow_delegates() {
    let mut arena_v = crate::arena::verif_arena_common::BareArena::new();
    let arena = arena_v.get();
    let a = any_fixnum();
    let k: u8 = kani::any();
    kani::assume(k >= 9 && k <= 55);
    // x * 2^k with |x| >= 2^(63-k) overflows i64 exactly when ... keep it simple: pick x, y
    // such that the overflow is certain: |x| >= 2^32 and |y| >= 2^32 is not enough in general,
    // so use y = +-2^k and require |x| >= 2^(63-k)
    let neg_y: bool = kani::any();
    let y: i64 = if neg_y { -(1i64 << k) } else { 1i64 << k };
    kani::assume(y >= Fixnum::MIN && y <= Fixnum::MAX);
    let x = a.get_num();
    let lim = 1i128 << (63 - k as u32);
    kani::assume((x as i128) > lim || (x as i128) < -lim);
    let r = mul(Number::Fixnum(a), fx(y), arena);
    match r {
        Ok(Number::Integer(i)) => {
            if under_model() {
                assert!(op_calls() == 1);
                assert!((op_a() == x as i128 && op_b() == y as i128)
                    || (op_a() == y as i128 && op_b() == x as i128));
            } else {
                assert!(i128::try_from(&*i) == Ok(x as i128 * y as i128));
            }
        }
        _ => assert!(false),
    }
}

// ---- truncating division / remainder, flooring mod / div ----
macro_rules! divlike {
    ($name:ident, $bx:expr, $by:expr) => {
        divlike!($name, $bx, $by, i128);
    };
    // $t: integer type of the oracle arithmetic; it must hold 2^($bx + $by) (a narrower
    // multiplier is a much smaller SAT problem than the 128-bit one)
    ($name:ident, $bx:expr, $by:expr, $t:ty) => {
        k!($name, 10, |arena| {
            let a = any_fixnum();
            let b = any_fixnum();
            kani::assume(a.get_num() > -(1i64 << $bx) && a.get_num() < (1i64 << $bx));
            kani::assume(b.get_num() > -(1i64 << $by) && b.get_num() < (1i64 << $by));
            let (x, y) = (a.get_num() as $t, b.get_num() as $t);
            let q = idiv(Number::Fixnum(a), Number::Fixnum(b), arena);
            let r = remainder(Number::Fixnum(a), Number::Fixnum(b), arena);
            let m = modulus(Number::Fixnum(a), Number::Fixnum(b), arena);
            if y == 0 {
                assert!(q.is_err() && r.is_err() && m.is_err());
                assert!(err_kind() == 1);
            } else {
                // truncating quotient / remainder: x = q*y + r, |r| < |y|, sign(r) = sign(x)
                let (qv, rv) = match (&q, &r) {
                    (Ok(Number::Fixnum(qf)), Ok(Number::Fixnum(rf))) => {
                        // |q| <= |x| and |r| < |y|: both fit the oracle type
                        assert!(qf.get_num() >= -(1i64 << $bx) && qf.get_num() <= (1i64 << $bx));
                        assert!(rf.get_num() > -(1i64 << $by) && rf.get_num() < (1i64 << $by));
                        (qf.get_num() as $t, rf.get_num() as $t)
                    }
                    _ => {
                        assert!(false);
                        (0, 0)
                    }
                };
                assert!(qv * y + rv == x);
                let ay = if y < 0 { -y } else { y };
                assert!(rv < ay && rv > -ay);
                assert!(rv == 0 || (rv < 0) == (x < 0));
                // flooring modulus: same residue class, sign of the divisor
                match m {
                    Ok(Number::Fixnum(mf)) => {
                        assert!(mf.get_num() > -(1i64 << $by) && mf.get_num() < (1i64 << $by));
                        let mv = mf.get_num() as $t;
                        assert!(mv < ay && mv > -ay);
                        assert!(mv == 0 || (mv < 0) == (y < 0));
                        assert!(mv == rv || mv == rv + y);
                    }
                    _ => assert!(false),
                }
            }
            kani::cover!(y == 0);
            kani::cover!(y < 0 && x > 0);
            std::mem::forget(q);
            std::mem::forget(r);
            std::mem::forget(m);
        });
    };
}
divlike!(c01_div_rem_mod_8x8, 8, 8, i32);
divlike!(c01_div_rem_mod_16x16, 16, 16, i64);
divlike!(c01_div_rem_mod_55x8, 55, 8);
divlike!(c01_div_rem_mod_24x24, 24, 24, i64);

// MIN // -1 = 2^55 does not fit: must come back as a bignum of exactly that value
k!(c01_idiv_min_by_minus_one, 10, |arena| {
    let r = idiv(fx(Fixnum::MIN), fx(-1), arena);
    match r {
        Ok(r) => check_via_from(r, 1i128 << 55),
        Err(_) => assert!(false),
    }
    std::mem::forget(r);
});

k_negstub!(c01_int_floor_div, 10, |arena| {
    let a = any_fixnum();
    let b = any_fixnum();
    let (x, y) = (a.get_num() as i32, b.get_num() as i32);
    kani::assume(a.get_num() > -(1i64 << 8) && a.get_num() < (1i64 << 8));
    kani::assume(b.get_num() > -(1i64 << 8) && b.get_num() < (1i64 << 8));
    let d = int_floor_div(Number::Fixnum(a), Number::Fixnum(b), arena);
    if y == 0 {
        assert!(d.is_err());
        assert!(err_kind() == 1);
    } else {
        match d {
            Ok(Number::Fixnum(df)) => {
                assert!(df.get_num() >= -(1i64 << 8) && df.get_num() <= (1i64 << 8));
                let dv = df.get_num() as i32;
                // floor(x / y): dv*y <= x < (dv+1)*y for y > 0, reversed for y < 0
                if y > 0 {
                    assert!(dv * y <= x && x < (dv + 1) * y);
                } else {
                    assert!(dv * y >= x && x > (dv + 1) * y);
                }
            }
            _ => assert!(false),
        }
    }
    std::mem::forget(d);
});

// ---- shifts ----
fn shl_absent(_l: Number, _r: Number, _a: &mut Arena) -> Result<Number, MachineStubGen> {
    // sibling of a mutually recursive pair; only reached for negative shift counts, which the
    // harness using this stub excludes
    kani::assume(false);
    Ok(fx(0))
}

#[kani::proof]
#[kani::unwind(10)]
#[kani::stub(under_model, under_model_yes)]
#[kani::stub(arcu::epoch_counters::with_thread_local_epoch_counter, st_epoch)]
#[kani::stub(zero_divisor_eval_error, st_zero)]
#[kani::stub(undefined_eval_error, st_undef)]
#[kani::stub(numerical_type_error, st_type)]
#[kani::stub(shl, shl_absent)]
fn c01_shr_nonneg_count() {
    let mut arena_v = crate::arena::verif_arena_common::BareArena::new();
    let arena = arena_v.get();
    let a = any_fixnum();
    let s: i64 = kani::any();
    kani::assume(s >= 0 && s <= Fixnum::MAX);
    let r = shr(Number::Fixnum(a), fx(s), arena);
    let x = a.get_num() as i128;
    // arithmetic shift = floor(x / 2^s); for s >= 56 that is -1 for negative x, else 0
    let expect = if s >= 100 { if x < 0 { -1 } else { 0 } } else { x >> s };
    match r {
        Ok(Number::Fixnum(f)) => assert!(f.get_num() as i128 == expect),
        _ => assert!(false),
    }
    kani::cover!(s >= 64 && x < 0);
    kani::cover!(s == 63);
}

#[kani::proof]
#[kani::unwind(10)]
#[kani::stub(under_model, under_model_yes)]
#[kani::stub(arcu::epoch_counters::with_thread_local_epoch_counter, st_epoch)]
#[kani::stub(zero_divisor_eval_error, st_zero)]
#[kani::stub(undefined_eval_error, st_undef)]
#[kani::stub(numerical_type_error, st_type)]
#[kani::stub(shr, shl_absent)]
#[kani::stub(<dashu::integer::IBig as std::ops::Shl<usize>>::shl, rec_shift)]
#[kani::stub(<dashu::integer::IBig as std::convert::From<i64>>::from, rec_from_i64)]
fn c01_shl_nonneg_count() {
    let mut arena_v = crate::arena::verif_arena_common::BareArena::new();
    let arena = arena_v.get();
    let a = any_fixnum();
    let s: i64 = kani::any();
    kani::assume(s >= 0 && s <= Fixnum::MAX);
    let r = shl(Number::Fixnum(a), fx(s), arena);
    let x = a.get_num() as i128;
    let small = s < 64 && fits(x << s) && ((x << s) >> s) == x;
    match r {
        Ok(Number::Fixnum(f)) => {
            assert!(small);
            assert!(f.get_num() as i128 == x << s);
        }
        Ok(Number::Integer(_)) => {
            // the exact result does not fit a fixnum, or the count is >= the word size (then even
            // 0 << s is computed by dashu and comes back as a bignum cell holding 0 - the value
            // is right, the representation is not normalised, which the property does not ask):
            // either via fixnum!(i64) or via the dashu shift with the original operands
            assert!(!small || x == 0);
            if op_calls() == 0 {
                assert!(x != 0);
                assert!(from_calls() == 1);
                assert!(s < 64 && from_arg() == x << s);
            } else {
                assert!(op_calls() == 1 && op_b() == s as i128);
                // lhs went through the recorded From<i64>
                assert!(from_calls() == 1 && from_arg() == x);
            }
        }
        _ => assert!(false),
    }
    kani::cover!(s >= 64 && x != 0);
    kani::cover!(s == 8 && !small);
}

// negative counts are forwarded to the sibling with the negated count
static mut SIB_L: i64 = 0;
static mut SIB_R: i64 = 0;
static mut SIB_CALLS: u32 = 0;
fn sibling_rec(l: Number, r: Number, _a: &mut Arena) -> Result<Number, MachineStubGen> {
    unsafe {
        SIB_CALLS += 1;
        if let (Number::Fixnum(l), Number::Fixnum(r)) = (l, r) {
            SIB_L = l.get_num();
            SIB_R = r.get_num();
        } else {
            assert!(false);
        }
    }
    Ok(fx(0))
}

#[kani::proof]
#[kani::unwind(10)]
#[kani::stub(under_model, under_model_yes)]
#[kani::stub(crate::machine::machine_state::MachineState::evaluation_error, st_ms_eval_error)]
#[kani::stub(crate::machine::machine_state::MachineState::error_form, st_ms_error_form)]
#[kani::stub(zero_divisor_eval_error, st_zero)]
#[kani::stub(undefined_eval_error, st_undef)]
#[kani::stub(numerical_type_error, st_type)]
#[kani::stub(<dashu::integer::IBig as std::convert::From<i64>>::from, rec_from_i64)]
#[kani::stub(arcu::epoch_counters::with_thread_local_epoch_counter, st_epoch)]
#[kani::stub(shl, sibling_rec)]
fn c01_shr_negative_count_forwards() {
    let mut arena_v = crate::arena::verif_arena_common::BareArena::new();
    let arena = arena_v.get();
    let a = any_fixnum();
    let s: i64 = kani::any();
    kani::assume(s < 0 && s > Fixnum::MIN);
    let _ = shr(Number::Fixnum(a), fx(s), arena);
    unsafe {
        assert!(SIB_CALLS == 1 && SIB_L == a.get_num() && SIB_R == -s);
    }
}

#[kani::proof]
#[kani::unwind(10)]
#[kani::stub(under_model, under_model_yes)]
#[kani::stub(crate::machine::machine_state::MachineState::evaluation_error, st_ms_eval_error)]
#[kani::stub(crate::machine::machine_state::MachineState::error_form, st_ms_error_form)]
#[kani::stub(zero_divisor_eval_error, st_zero)]
#[kani::stub(undefined_eval_error, st_undef)]
#[kani::stub(numerical_type_error, st_type)]
#[kani::stub(<dashu::integer::IBig as std::convert::From<i64>>::from, rec_from_i64)]
#[kani::stub(arcu::epoch_counters::with_thread_local_epoch_counter, st_epoch)]
#[kani::stub(shr, sibling_rec)]
fn c01_shl_negative_count_forwards() {
    let mut arena_v = crate::arena::verif_arena_common::BareArena::new();
    let arena = arena_v.get();
    let a = any_fixnum();
    let s: i64 = kani::any();
    kani::assume(s < 0 && s > Fixnum::MIN);
    let _ = shl(Number::Fixnum(a), fx(s), arena);
    unsafe {
        assert!(SIB_CALLS == 1 && SIB_L == a.get_num() && SIB_R == -s);
    }
}

#[kani::proof]
#[kani::unwind(4)]
fn c01_checked_signed_shl() {
    let x: i64 = kani::any();
    let s: usize = kani::any();
    let r = checked_signed_shl(x, s);
    match r {
        Some(v) => {
            // never a wrong value: v == x * 2^s exactly
            assert!(s < 64);
            assert!((v as i128) == (x as i128) << s);
        }
        None => {
            // may decline only when the result does not fit 56 bits (callers then use bignums);
            // declining a fitting result would still be correct but is reported by c01_shl
            assert!(s != 0);
        }
    }
}

// ---- gcd ----
k!(c01_gcd_small, 40, |arena| {
    let a = any_fixnum();
    let b = any_fixnum();
    let (x, y) = (a.get_num(), b.get_num());
    kani::assume(x > -64 && x < 64 && y > -64 && y < 64);
    match gcd(Number::Fixnum(a), Number::Fixnum(b), arena) {
        Ok(Number::Fixnum(g)) => {
            let g = g.get_num();
            if x == 0 && y == 0 {
                assert!(g == 0);
            } else {
                assert!(g > 0);
                assert!(x % g == 0 && y % g == 0);
                // maximality: no larger common divisor below 64
                let d: i64 = kani::any();
                kani::assume(d > g && d < 64);
                assert!(!(x % d == 0 && y % d == 0));
            }
        }
        _ => assert!(false),
    }
});

k!(c01_gcd_zero_left, 10, |arena| {
    // gcd(0, y) = |y| for every y, including MIN whose absolute value needs a bignum
    let b = any_fixnum();
    let y = b.get_num() as i128;
    let exact = if y < 0 { -y } else { y };
    match gcd(fx(0), Number::Fixnum(b), arena) {
        Ok(r) => check_via_from(r, exact),
        Err(_) => assert!(false),
    }
    kani::cover!(!fits(exact));
});

k!(c01_gcd_zero_right, 10, |arena| {
    let b = any_fixnum();
    let y = b.get_num() as i128;
    let exact = if y < 0 { -y } else { y };
    match gcd(Number::Fixnum(b), fx(0), arena) {
        Ok(r) => check_via_from(r, exact),
        Err(_) => assert!(false),
    }
    kani::cover!(!fits(exact));
});

// ---- integer power ----
k!(c01_int_pow_small, 12, |arena| {
    let a = any_fixnum();
    let x = a.get_num();
    kani::assume(x >= -40 && x <= 40);
    let e: i64 = kani::any();
    kani::assume(e >= 0 && e <= 6);
    let r = int_pow(Number::Fixnum(a), fx(e), arena);
    let mut p: i128 = 1;
    let mut i = 0;
    while i < e {
        p *= x as i128;
        i += 1;
    }
    match r {
        Ok(r) => check_via_from(r, p),
        Err(_) => assert!(false),
    }
    assert!(pow_calls() == 0 || !under_model());
    kani::cover!(x == 40 && e == 6);
    kani::cover!(x == 0 && e == 0);
    std::mem::forget(r);
});

// negative exponents: the three ISO cases, for every base and every negative exponent
k!(c01_int_pow_negative_exponent, 12, |arena| {
    let a = any_fixnum();
    let x = a.get_num();
    let e: i64 = kani::any();
    kani::assume(e < 0 && e >= Fixnum::MIN);
    let r = int_pow(Number::Fixnum(a), fx(e), arena);
    if x == 0 {
        assert!(r.is_err() && err_kind() == 2);
    } else if !(x == 1 || x == -1) {
        assert!(r.is_err() && err_kind() == 3);
        assert!(unsafe { ERR_VALID_TYPE_IS_FLOAT });
    } else {
        // (+-1) ^ negative: delegated to binary_pow(base, exponent)
        match r {
            Ok(Number::Integer(i)) => {
                if under_model() {
                    assert!(pow_calls() == 1);
                    assert!(from_calls() == 2 && from_arg_prev() == x as i128
                        && from_arg() == e as i128);
                } else {
                    let want = if x == 1 || e % 2 == 0 { 1 } else { -1 };
                    assert!(i128::try_from(&*i) == Ok(want));
                }
            }
            Ok(Number::Fixnum(f)) => {
                let want = if x == 1 || e % 2 == 0 { 1 } else { -1 };
                assert!(f.get_num() == want);
            }
            _ => assert!(false),
        }
    }
    kani::cover!(x == 0);
    kani::cover!(x == -1);
    kani::cover!(x == 2);
    std::mem::forget(r);
});

// a power that overflows i64 is delegated to binary_pow with (base, exponent)
k!(c01_int_pow_overflow_delegates, 12, |arena| {
    let sel: u8 = kani::any();
    let x: i64 = match sel % 4 { 0 => 2, 1 => -2, 2 => 3, _ => 10 };
    let e: i64 = kani::any();
    kani::assume(e >= 64 && e <= 70);
    let r = int_pow(fx(x), fx(e), arena);
    match r {
        Ok(Number::Integer(_)) => {
            if under_model() {
                assert!(pow_calls() == 1);
                assert!(from_calls() == 2 && from_arg_prev() == x as i128
                    && from_arg() == e as i128);
            }
        }
        _ => assert!(false),
    }
    std::mem::forget(r);
});

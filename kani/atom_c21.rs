// C21 — inline atoms: text <-> index round trip, char atoms, AtomCell packing, ordering
// (child module of src/atom_table.rs)
#![allow(dead_code, unused_imports)]
use super::*;

static VERIF_EPOCH: arcu::epoch_counters::EpochCounter = arcu::epoch_counters::EpochCounter::new();
fn st_epoch<T>(fun: impl FnOnce(&arcu::epoch_counters::EpochCounter) -> T) -> T {
    fun(&VERIF_EPOCH)
}

// new_inlined(s) -> index -> bytes -> inlined_to_str gives s back, for every text that differs
// from the template in the symbolic positions P1, P2 (any non-NUL ASCII bytes there)
macro_rules! c21_roundtrip {
    ($name:ident, $L:expr, $tmpl:expr, $P1:expr, $P2:expr) => {
        #[kani::proof]
        #[kani::unwind(10)]
        #[kani::stub(arcu::epoch_counters::with_thread_local_epoch_counter, st_epoch)]
        fn $name() {
            const L: usize = $L;
            let mut b: [u8; L] = *$tmpl;
            let x: u8 = kani::any();
            let y: u8 = kani::any();
            kani::assume(x != 0 && x < 128 && y != 0 && y < 128);
            b[$P1] = x;
            b[$P2] = y;
            let s = unsafe { std::str::from_utf8_unchecked(&b) };
            let a = Atom::new_inlined(s);
            assert!(a.is_inlined());
            let bytes = a.flat_index().to_le_bytes();
            let mut i = 0;
            while i < 8 {
                assert!(bytes[i] == if i < L { b[i] } else { 0 });
                i += 1;
            }
            let t = inlined_to_str(&bytes);
            assert!(t.len() == L);
            let k: usize = kani::any();
            kani::assume(k < L);
            assert!(t.as_bytes()[k] == b[k]);
            // identity: same bytes <=> same index (index is an injective function of the bytes)
            let a2 = Atom::new_inlined(s);
            assert!(a2 == a);
            // the cell form keeps name and arity
            let ar: u8 = kani::any();
            let cell = AtomCell::build_with(a.index, ar);
            assert!(cell.get_name() == a && cell.get_arity() == ar as usize);
        }
    };
}
c21_roundtrip!(c21_roundtrip_1, 1, b"a", 0, 0);
c21_roundtrip!(c21_roundtrip_2, 2, b"ab", 0, 1);
c21_roundtrip!(c21_roundtrip_3, 3, b"abc", 0, 2);
c21_roundtrip!(c21_roundtrip_4, 4, b"abcd", 1, 3);
c21_roundtrip!(c21_roundtrip_5, 5, b"abcde", 0, 4);
c21_roundtrip!(c21_roundtrip_6a, 6, b"abcdef", 0, 5);
c21_roundtrip!(c21_roundtrip_6b, 6, b"abcdef", 2, 3);
c21_roundtrip!(c21_roundtrip_6c, 6, b"abcdef", 4, 5);

// two inline atoms of equal length differing anywhere are different atoms, and order bytewise
macro_rules! c21_distinct_ordered {
    ($name:ident, $L:expr, $tmpl:expr, $P:expr) => {
        #[kani::proof]
        #[kani::unwind(10)]
        #[kani::stub(arcu::epoch_counters::with_thread_local_epoch_counter, st_epoch)]
        fn $name() {
            const L: usize = $L;
            let mut b1: [u8; L] = *$tmpl;
            let mut b2: [u8; L] = *$tmpl;
            let x: u8 = kani::any();
            let y: u8 = kani::any();
            kani::assume(x != 0 && x < 128 && y != 0 && y < 128);
            b1[$P] = x;
            b2[$P] = y;
            let a1 = Atom::new_inlined(unsafe { std::str::from_utf8_unchecked(&b1) });
            let a2 = Atom::new_inlined(unsafe { std::str::from_utf8_unchecked(&b2) });
            assert!((a1 == a2) == (x == y));
            let want = x.cmp(&y);
            assert!(a1.cmp(&a2) == want);
            assert!(a2.cmp(&a1) == want.reverse());
        }
    };
}
c21_distinct_ordered!(c21_order_1, 1, b"a", 0);
c21_distinct_ordered!(c21_order_3, 3, b"abc", 1);
c21_distinct_ordered!(c21_order_6_first, 6, b"abcdef", 0);
c21_distinct_ordered!(c21_order_6_last, 6, b"abcdef", 5);

// a shorter text that is a prefix of a longer one is a different, smaller atom
#[kani::proof]
#[kani::unwind(10)]
#[kani::stub(arcu::epoch_counters::with_thread_local_epoch_counter, st_epoch)]
fn c21_prefix_is_smaller() {
    let x: u8 = kani::any();
    kani::assume(x != 0 && x < 128);
    let b1 = [b'a', x];
    let b2 = [b'a', x, b'z'];
    let a1 = Atom::new_inlined(unsafe { std::str::from_utf8_unchecked(&b1) });
    let a2 = Atom::new_inlined(unsafe { std::str::from_utf8_unchecked(&b2) });
    assert!(a1 != a2);
    assert!(a1.cmp(&a2) == Ordering::Less);
}

// char atoms: every non-NUL char has the index its one-char text has; NUL maps to the static atom
#[kani::proof]
#[kani::unwind(10)]
#[kani::stub(arcu::epoch_counters::with_thread_local_epoch_counter, st_epoch)]
fn c21_char_atom() {
    let c: char = kani::any();
    let cell = AtomCell::new_char_inlined(c);
    if c == '\u{0}' {
        assert!(cell.get_name() == atom!("\0"));
        assert!(!cell.get_name().is_inlined());
    } else {
        let mut buf = [0u8; 4];
        let s: &str = c.encode_utf8(&mut buf);
        let a = Atom::new_inlined(s);
        assert!(cell.get_name() == a);
        assert!(cell.get_arity() == 0);
        assert!(a.is_inlined());
    }
}

// AtomCell packs (index, arity) losslessly for every index below 2^49 (48-bit name + inline bit)
#[kani::proof]
#[kani::unwind(10)]
#[kani::stub(arcu::epoch_counters::with_thread_local_epoch_counter, st_epoch)]
fn c21_atom_cell_packing() {
    let idx: u64 = kani::any();
    kani::assume(idx < (1u64 << 49));
    let ar: u8 = kani::any();
    let cell = AtomCell::build_with(idx, ar);
    assert!(cell.get_name().index == idx);
    assert!(cell.get_arity() == ar as usize);
    let (n, a) = cell.get_name_and_arity();
    assert!(n.index == idx && a == ar as usize);
}

// static atoms keep their texts (a sample of the generated table, through the real as_str)
#[kani::proof]
#[kani::unwind(12)]
#[kani::stub(arcu::epoch_counters::with_thread_local_epoch_counter, st_epoch)]
fn c21_static_atoms_sample() {
    let a = atom!("evaluation_error");
    assert!(!a.is_inlined());
    assert!(a.len() == 16);
    let e = atom!("error");
    assert!(e.is_inlined());
    assert!(e.len() == 5);
    assert!(e == Atom::new_inlined("error"));
    let nil = atom!("[]");
    assert!(nil.is_inlined() && nil == Atom::new_inlined("[]"));
}

// C02 — float classification, float kernels, Number/Number, integer rounding (src/arithmetic.rs)
#![allow(dead_code, unused_imports, static_mut_refs)]
use super::*;

fn under_model() -> bool {
    false
}
fn under_model_yes() -> bool {
    true
}

static VERIF_EPOCH: arcu::epoch_counters::EpochCounter = arcu::epoch_counters::EpochCounter::new();
fn st_epoch<T>(fun: impl FnOnce(&arcu::epoch_counters::EpochCounter) -> T) -> T {
    fun(&VERIF_EPOCH)
}

fn any_fixnum() -> Fixnum {
    let x: i64 = kani::any();
    kani::assume(x >= Fixnum::MIN && x <= Fixnum::MAX);
    Fixnum::build_with_checked(x).unwrap()
}

#[kani::proof]
fn c02_classify_float() {
    let f: f64 = kani::any();
    match classify_float(f) {
        Ok(g) => {
            assert!(f.is_finite());
            assert!(g.to_bits() == f.to_bits());
        }
        Err(e) => {
            assert!(!f.is_finite());
            if f.is_nan() {
                assert!(matches!(e, EvalError::Undefined));
            } else {
                assert!(matches!(e, EvalError::FloatOverflow));
            }
        }
    }
    kani::cover!(f.is_nan());
    kani::cover!(f.is_infinite());
    kani::cover!(f.is_subnormal());
}

#[kani::proof]
fn c02_add_f() {
    let a: f64 = kani::any();
    let b: f64 = kani::any();
    kani::assume(a.is_finite() && b.is_finite());
    let ieee = a + b;
    match add_f(a, b) {
        Ok(OrderedFloat(r)) => assert!(ieee.is_finite() && r.to_bits() == ieee.to_bits()),
        Err(e) => {
            assert!(!ieee.is_finite());
            assert!(matches!(e, EvalError::FloatOverflow));
        }
    }
    kani::cover!(!ieee.is_finite());
}

#[kani::proof]
fn c02_mul_f() {
    let a: f64 = kani::any();
    let b: f64 = kani::any();
    kani::assume(a.is_finite() && b.is_finite());
    let ieee = a * b;
    match mul_f(a, b) {
        Ok(OrderedFloat(r)) => assert!(ieee.is_finite() && r.to_bits() == ieee.to_bits()),
        Err(e) => {
            assert!(!ieee.is_finite());
            assert!(matches!(e, EvalError::FloatOverflow));
        }
    }
    kani::cover!(!ieee.is_finite());
}

#[kani::proof]
fn c02_div_f() {
    let a: f64 = kani::any();
    let b: f64 = kani::any();
    kani::assume(a.is_finite() && b.is_finite());
    let r = div_f(a, b);
    if b == 0.0 {
        // +0.0 and -0.0 alike
        assert!(matches!(r, Err(EvalError::ZeroDivisor)));
    } else {
        let ieee = a / b;
        match r {
            Ok(OrderedFloat(r)) => assert!(ieee.is_finite() && r.to_bits() == ieee.to_bits()),
            Err(e) => {
                assert!(!ieee.is_finite());
                assert!(matches!(e, EvalError::FloatOverflow));
            }
        }
    }
    kani::cover!(b == 0.0 && b.is_sign_negative());
}

// the zero-divisor guard alone (no dependence on the quotient: cheap enough for the quick tier)
#[kani::proof]
fn c02_div_f_zero_guard() {
    let a: f64 = kani::any();
    let b: f64 = kani::any();
    kani::assume(a.is_finite() && b.is_finite());
    let r = div_f(a, b);
    let zd = matches!(r, Err(EvalError::ZeroDivisor));
    assert!(zd == (b == 0.0));
    kani::cover!(b.is_subnormal());
    kani::cover!(b == 0.0 && b.is_sign_negative());
}

// integer -> float promotion: always finite, equal to the nearest-even conversion
#[kani::proof]
#[kani::unwind(10)]
fn c02_promote_fixnum() {
    let a = any_fixnum();
    let n = a.get_num();
    match float_fn_to_f(n) {
        Ok(f) => assert!(f.to_bits() == (n as f64).to_bits()),
        Err(_) => assert!(false),
    }
    match result_f(&Number::Fixnum(a)) {
        Ok(f) => assert!(f.to_bits() == (n as f64).to_bits()),
        Err(_) => assert!(false),
    }
    assert!(rnd_f(&Number::Fixnum(a)).to_bits() == (n as f64).to_bits());
}

// Number / Number on the Fixnum and Float arms
#[kani::proof]
#[kani::unwind(10)]
fn c02_number_div_fix_fix() {
    let a = any_fixnum();
    let b = any_fixnum();
    let (x, y) = (a.get_num(), b.get_num());
    // keep the float division cheap: small magnitudes, all four sign combinations, zero
    kani::assume(x > -(1 << 12) && x < (1 << 12) && y > -(1 << 12) && y < (1 << 12));
    let r = Number::Fixnum(a) / Number::Fixnum(b);
    if y == 0 {
        assert!(matches!(r, Err(EvalError::ZeroDivisor)));
    } else {
        match r {
            Ok(Number::Float(OrderedFloat(f))) => {
                assert!(f.to_bits() == ((x as f64) / (y as f64)).to_bits())
            }
            _ => assert!(false),
        }
    }
}

#[kani::proof]
#[kani::unwind(10)]
fn c02_number_div_mixed() {
    let a = any_fixnum();
    let x = a.get_num();
    let f: f64 = kani::any();
    kani::assume(f.is_finite());
    let lhs_float: bool = kani::any();
    let r = if lhs_float {
        Number::Float(OrderedFloat(f)) / Number::Fixnum(a)
    } else {
        Number::Fixnum(a) / Number::Float(OrderedFloat(f))
    };
    let (n, d) = if lhs_float { (f, x as f64) } else { (x as f64, f) };
    if d == 0.0 {
        assert!(matches!(r, Err(EvalError::ZeroDivisor)));
    } else {
        let ieee = n / d;
        match r {
            Ok(Number::Float(OrderedFloat(g))) => {
                assert!(ieee.is_finite() && g.to_bits() == ieee.to_bits())
            }
            Ok(_) => assert!(false),
            Err(e) => {
                assert!(!ieee.is_finite());
                assert!(matches!(e, EvalError::FloatOverflow));
            }
        }
    }
}

// ---- rnd_i on floats: the defining inequality, and the fixnum boundary (F2 site) ----
static mut TF_CALLS: u32 = 0;
static mut TF_ARG: f64 = 0.0;
fn rec_try_from_f64(f: f64) -> Result<dashu::integer::IBig, dashu::base::ConversionError> {
    unsafe {
        TF_CALLS += 1;
        TF_ARG = f;
    }
    Ok(dashu::integer::IBig::ZERO)
}

#[kani::proof]
#[kani::unwind(10)]
#[kani::stub(under_model, under_model_yes)]
#[kani::stub(arcu::epoch_counters::with_thread_local_epoch_counter, st_epoch)]
#[kani::stub(<dashu::integer::IBig as TryFrom<f64>>::try_from, rec_try_from_f64)]
fn c02_rnd_i_float() {
    let mut arena_v = crate::arena::verif_arena_common::BareArena::new();
    let arena = arena_v.get();
    let x: f64 = kani::any();
    kani::assume(x.is_finite());
    let n = Number::Float(OrderedFloat(x));
    let r = rnd_i(&n, arena);
    let lim = 36028797018963968.0f64; // 2^55
    match r {
        Ok(Number::Fixnum(f)) => {
            let v = f.get_num();
            // a fixnum result is only possible when floor(x) is representable
            assert!(x < lim && x >= -lim);
            // v = floor(x): v <= x < v + 1, evaluated exactly (v and v+1 are exact doubles
            // whenever |v| <= 2^53, and beyond that x is itself integral so v == x)
            let vf = v as f64;
            assert!((vf as i64) == v);
            assert!(vf <= x);
            assert!(x < vf + 1.0 || x == vf);
        }
        Ok(Number::Integer(i)) => {
            assert!(x >= lim || x < -lim);
            if under_model() {
                unsafe {
                    assert!(TF_CALLS == 1);
                    assert!(TF_ARG.to_bits() == x.floor().to_bits());
                }
            } else {
                // native replay: the real dashu conversion
                assert!(dashu::integer::IBig::try_from(x.floor()).ok().as_ref() == Some(&*i));
            }
        }
        _ => assert!(false),
    }
    kani::cover!(x == lim);
    kani::cover!(x == -lim);
    kani::cover!(x < 0.0 && x > -1.0);
}

#[kani::proof]
#[kani::unwind(10)]
fn c02_rnd_i_fixnum_identity() {
    let mut arena_v = crate::arena::verif_arena_common::BareArena::new();
    let arena = arena_v.get();
    let a = any_fixnum();
    match rnd_i(&Number::Fixnum(a), arena) {
        Ok(Number::Fixnum(b)) => assert!(a.get_num() == b.get_num()),
        _ => assert!(false),
    }
}

// C20 — partial-string encoding arithmetic: what is written for a string, and what every
// reader computes from it, agree (bytes for small concrete lengths, symbolic contents).
#![allow(dead_code, unused_imports)]
use super::verif_heap_common::*;
use super::*;

macro_rules! c20_roundtrip {
    ($name:ident, $L:expr, $U:expr) => {
        #[kani::proof]
        #[kani::unwind($U)]
        #[kani::stub(InnerHeap::grow, grow_fail)]
        fn $name() {
            const L: usize = $L;
            const CELLS: usize = L / 8 + 2; // cells the segment may occupy (incl. extra pad cell)
            let start: usize = kani::any();
            kani::assume(start <= 2);
            let mut heap = mk_heap(CELLS + 3, 0);
            let b: [u8; L] = kani::any();
            let mut i = 0;
            while i < L {
                kani::assume(b[i] != 0 && b[i] < 128);
                i += 1;
            }
            let s = unsafe { std::str::from_utf8_unchecked(&b) };
            let mut section = ReservedHeapSection {
                heap_ptr: heap.inner.ptr,
                heap_cell_len: start,
            };
            let written = section.push_pstr_segment(s);
            // (1) cells written: string bytes + at least one NUL, rounded up to cells, plus one
            //     zero cell when only a single NUL fitted
            let want_cells = if L % 8 == 7 { L / 8 + 2 } else { L / 8 + 1 };
            assert!(written == want_cells);
            assert!(section.heap_cell_len == start + written);
            heap.inner.byte_len = heap_index!(section.heap_cell_len);
            let base = heap_index!(start);
            // (2) the bytes are the string, followed by NULs up to the tail cell
            let k: usize = kani::any();
            kani::assume(k < 8 * want_cells);
            let got = unsafe { *heap.inner.ptr.add(base + k) };
            if k < L {
                assert!(got == b[k]);
            } else {
                assert!(got == 0);
            }
            // (3) scanning from any offset inside the string finds the rest and the same tail
            let off: usize = kani::any();
            kani::assume(off < L);
            let scan = heap.scan_slice_to_str(base + off);
            assert!(scan.string.len() == L - off);
            assert!(scan.tail_idx == start + written);
            let j: usize = kani::any();
            kani::assume(j < L - off);
            assert!(scan.string.as_bytes()[j] == b[off + j]);
            // (4) the tail computed from the position of the first NUL agrees
            assert!(Heap::pstr_tail_idx(base + L) == start + written);
            // (5) size computed before writing = bytes written + one tail cell
            assert!(Heap::compute_pstr_size(s) == heap_index!(written + 1));
            // (6) slice_to_str gives back the text
            let t = heap.slice_to_str(base, L);
            assert!(t.len() == L && t.as_bytes()[j + off] == b[off + j]);
            std::mem::forget(heap);
        }
    };
}
c20_roundtrip!(c20_roundtrip_1, 1, 12);
c20_roundtrip!(c20_roundtrip_2, 2, 12);
c20_roundtrip!(c20_roundtrip_6, 6, 12);
c20_roundtrip!(c20_roundtrip_7, 7, 12);
c20_roundtrip!(c20_roundtrip_8, 8, 12);
c20_roundtrip!(c20_roundtrip_9, 9, 13);
c20_roundtrip!(c20_roundtrip_15, 15, 19);
c20_roundtrip!(c20_roundtrip_16, 16, 20);
c20_roundtrip!(c20_roundtrip_17, 17, 21);

// the index identities for *every* length: pure arithmetic on (start, len), no memory
#[kani::proof]
fn c20_index_identities_all_lengths() {
    let len: usize = kani::any();
    let base: usize = kani::any();
    kani::assume(len >= 1 && len < (1usize << 48));
    kani::assume(base % 8 == 0 && base < (1usize << 48));
    let sentinel = pstr_sentinel_length(base + len);
    assert!(sentinel >= 1 && sentinel <= 8);
    assert!((base + len + sentinel) % 8 == 0);
    // cells written by push_pstr_segment for this length
    let cells = if sentinel == 1 { (len + sentinel + 8) / 8 } else { (len + sentinel) / 8 };
    // tail according to Heap::pstr_tail_idx
    assert!(Heap::pstr_tail_idx(base + len) == base / 8 + cells);
    // sentinel length depends only on len mod 8 when base is cell aligned
    assert!(pstr_sentinel_length(len) == sentinel);
}

// copy_pstr_within reproduces the bytes and returns the *source's* tail index
macro_rules! c20_copy {
    ($name:ident, $L:expr, $U:expr) => {
        #[kani::proof]
        #[kani::unwind($U)]
        #[kani::stub(InnerHeap::grow, grow_fail)]
        fn $name() {
            const L: usize = $L;
            const SC: usize = L / 8 + 2;
            let mut heap = mk_heap(2 * SC + 3, 1 + SC);
            let b: [u8; L] = kani::any();
            let mut i = 0;
            while i < L {
                kani::assume(b[i] != 0 && b[i] < 128);
                unsafe { *heap.inner.ptr.add(8 + i) = b[i] };
                i += 1;
            }
            while i < 8 * SC {
                unsafe { *heap.inner.ptr.add(8 + i) = 0 };
                i += 1;
            }
            let old_len = heap.inner.byte_len;
            // tail of the source, by the index arithmetic checked in c20_roundtrip_*
            let src_tail = Heap::pstr_tail_idx(8 + L);
            let r = heap.copy_pstr_within(8);
            match r {
                Ok(tail) => {
                    assert!(tail == src_tail);
                    // the copy: same bytes, NUL-terminated, and its own tail cell is exactly the
                    // new end of the heap
                    let j: usize = kani::any();
                    kani::assume(j < L);
                    assert!(unsafe { *heap.inner.ptr.add(old_len + j) } == b[j]);
                    assert!(unsafe { *heap.inner.ptr.add(old_len + L) } == 0);
                    let cells = if L % 8 == 7 { L / 8 + 2 } else { L / 8 + 1 };
                    assert!(heap.inner.byte_len == old_len + 8 * cells);
                    assert!(heap_index!(Heap::pstr_tail_idx(old_len + L)) == heap.inner.byte_len);
                }
                Err(_) => assert!(false),
            }
            std::mem::forget(heap);
        }
    };
}
c20_copy!(c20_copy_3, 3, 20);
c20_copy!(c20_copy_7, 7, 20);
c20_copy!(c20_copy_8, 8, 28);

// last_str_char_and_tail: the char at the offset, and either the next offset or the tail
macro_rules! c20_last {
    ($name:ident, $L:expr, $U:expr) => {
        #[kani::proof]
        #[kani::unwind($U)]
        #[kani::stub(InnerHeap::grow, grow_fail)]
        fn $name() {
            const L: usize = $L;
            const SC: usize = L / 8 + 2;
            let mut heap = mk_heap(SC + 2, SC + 1);
            let b: [u8; L] = kani::any();
            let mut i = 0;
            while i < L {
                kani::assume(b[i] != 0 && b[i] < 128);
                unsafe { *heap.inner.ptr.add(8 + i) = b[i] };
                i += 1;
            }
            while i < 8 * SC {
                unsafe { *heap.inner.ptr.add(8 + i) = 0 };
                i += 1;
            }
            let off: usize = kani::any();
            kani::assume(off < L);
            let (c, next) = heap.last_str_char_and_tail(8 + off);
            assert!(c as u32 == b[off] as u32);
            if off + 1 < L {
                assert!(next == pstr_loc_as_cell!(8 + off + 1));
            } else {
                let tail = heap.scan_slice_to_str(8).tail_idx;
                assert!(next == heap_loc_as_cell!(tail));
            }
            std::mem::forget(heap);
        }
    };
}
c20_last!(c20_last_char_3, 3, 20);
c20_last!(c20_last_char_7, 7, 20);


// the last character is multi-byte: the tail must still be found from the end of the *bytes*
macro_rules! c20_last_mb {
    ($name:ident, $P:expr, $tail:expr) => {
        #[kani::proof]
        #[kani::unwind(20)]
        #[kani::stub(InnerHeap::grow, grow_fail)]
        fn $name() {
            const P: usize = $P;                 // ASCII prefix length
            let tailb: &[u8] = $tail;            // UTF-8 bytes of the last character
            let l = P + tailb.len();
            let sc = l / 8 + 2;
            let mut heap = mk_heap(sc + 2, sc + 1);
            let b: [u8; P] = kani::any();
            let mut i = 0;
            while i < P {
                kani::assume(b[i] != 0 && b[i] < 128);
                unsafe { *heap.inner.ptr.add(8 + i) = b[i] };
                i += 1;
            }
            let mut k = 0;
            while k < tailb.len() {
                unsafe { *heap.inner.ptr.add(8 + P + k) = tailb[k] };
                k += 1;
            }
            i = l;
            while i < 8 * sc {
                unsafe { *heap.inner.ptr.add(8 + i) = 0 };
                i += 1;
            }
            let want_c = std::str::from_utf8(tailb).unwrap().chars().next().unwrap();
            let (c, next) = heap.last_str_char_and_tail(8 + P);
            assert!(c == want_c);
            // tail cell: after the string bytes, their NUL padding, and the extra zero cell when
            // only one NUL fitted
            let cells = if l % 8 == 7 { l / 8 + 2 } else { l / 8 + 1 };
            assert!(next == heap_loc_as_cell!(1 + cells));
            std::mem::forget(heap);
        }
    };
}
c20_last_mb!(c20_last_char_multibyte_7, 3, &[0xF0, 0x9F, 0x98, 0x80]);
c20_last_mb!(c20_last_char_multibyte_5, 3, &[0xC3, 0xA9]);

// a multi-byte character that is NOT the last one: the successor offset advances by its UTF-8
// length (not by one byte)
macro_rules! c20_last_mid {
    ($name:ident, $mb:expr) => {
        #[kani::proof]
        #[kani::unwind(20)]
        #[kani::stub(InnerHeap::grow, grow_fail)]
        fn $name() {
            let mb: &[u8] = $mb;                 // UTF-8 bytes of the character under the cursor
            let l = 1 + mb.len() + 1;            // ASCII, the character, ASCII
            let sc = l / 8 + 2;
            let mut heap = mk_heap(sc + 2, sc + 1);
            let a: u8 = kani::any();
            let z: u8 = kani::any();
            kani::assume(a != 0 && a < 128 && z != 0 && z < 128);
            unsafe { *heap.inner.ptr.add(8) = a };
            let mut k = 0;
            while k < mb.len() {
                unsafe { *heap.inner.ptr.add(9 + k) = mb[k] };
                k += 1;
            }
            unsafe { *heap.inner.ptr.add(9 + mb.len()) = z };
            let mut i = l;
            while i < 8 * sc {
                unsafe { *heap.inner.ptr.add(8 + i) = 0 };
                i += 1;
            }
            let want_c = std::str::from_utf8(mb).unwrap().chars().next().unwrap();
            let (c, next) = heap.last_str_char_and_tail(9);
            assert!(c == want_c);
            assert!(next == pstr_loc_as_cell!(9 + mb.len()));
            std::mem::forget(heap);
        }
    };
}
c20_last_mid!(c20_last_char_multibyte_mid2, &[0xC3, 0xB1]);
c20_last_mid!(c20_last_char_multibyte_mid4, &[0xF0, 0x9F, 0x98, 0x80]);

// C33 — Heap writes never exceed the reserved capacity.
// One operation per harness from a directly constructed pre-state (inductive step);
// capacities are compile-time constants, fill level / lengths / contents symbolic.
#![allow(dead_code, unused_imports)]
use super::verif_heap_common::*;
use super::*;

const CAP: usize = 6;

#[kani::proof]
#[kani::unwind(10)]
#[kani::stub(InnerHeap::grow, grow_fail)]
fn c33_push_cell_pinned() {
    let len: usize = kani::any();
    kani::assume(len <= CAP);
    let mut heap = mk_heap(CAP, len);
    let cell = any_cell();
    let old = heap.inner.byte_len;
    match heap.push_cell(cell) {
        Ok(()) => {
            assert!(heap_inv(&heap));
            assert!(heap.inner.byte_len == old + 8);
            assert!(heap[len] == cell);
            kani::cover!(len == CAP - 1);
        }
        Err(_) => {
            assert!(len == CAP);
            assert!(heap.inner.byte_len == old);
            kani::cover!(true);
        }
    }
    std::mem::forget(heap);
}

#[kani::proof]
#[kani::unwind(10)]
#[kani::stub(InnerHeap::grow, grow_fail)]
fn c33_reserve_pinned() {
    let len: usize = kani::any();
    kani::assume(len <= CAP);
    let n: usize = kani::any();
    let mut heap = mk_heap(CAP, len);
    let old = heap.inner.byte_len;
    let cap = heap.inner.byte_cap;
    match heap.reserve(n) {
        Ok(w) => {
            // what was promised is there
            assert!(n <= CAP - len);
            assert!(w.section.heap_cell_len == len);
            assert!(w.section.heap_ptr == heap.inner.ptr);
            kani::cover!(n == CAP - len && n > 0);
        }
        Err(_) => {
            assert!(n > CAP - len);
            kani::cover!(n == CAP - len + 1);
            kani::cover!(n > usize::MAX / 8);
        }
    }
    assert!(heap.inner.byte_len == old && heap.inner.byte_cap == cap);
    std::mem::forget(heap);
}

// reserve + write exactly the reserved number of cells through the writer: every write
// lands inside the allocation (CBMC pointer checks) and the invariant holds afterwards.
#[kani::proof]
#[kani::unwind(10)]
#[kani::stub(InnerHeap::grow, grow_fail)]
fn c33_reserve_then_write_cells() {
    let len: usize = kani::any();
    kani::assume(len <= CAP);
    let n: usize = kani::any();
    kani::assume(n <= 3);
    let mut heap = mk_heap(CAP, len);
    let c = any_cell();
    if let Ok(mut w) = heap.reserve(n) {
        let r = w.write_with(|section| {
            let mut i = 0;
            while i < n {
                section.push_cell(c);
                i += 1;
            }
        });
        assert!(r.bytes_written == 8 * n);
        assert!(heap_inv(&heap));
        assert!(heap.inner.byte_len == 8 * (len + n));
        kani::cover!(n == 3 && len == CAP - 3);
    }
    std::mem::forget(heap);
}

#[kani::proof]
#[kani::unwind(10)]
#[kani::stub(InnerHeap::grow, grow_fail)]
fn c33_copy_slice_to_end_pinned() {
    let len: usize = kani::any();
    kani::assume(len <= CAP);
    let a: usize = kani::any();
    let b: usize = kani::any();
    kani::assume(a <= b && b <= len);
    let mut heap = mk_heap(CAP, len);
    let old = heap.inner.byte_len;
    let first = if b > a { Some(heap[a]) } else { None };
    match heap.copy_slice_to_end(a..b) {
        Ok(()) => {
            assert!(heap_inv(&heap));
            assert!(heap.inner.byte_len == old + 8 * (b - a));
            if let Some(c) = first {
                assert!(heap[len] == c);
            }
            kani::cover!(b - a == CAP - len && b > a);
        }
        Err(_) => {
            assert!(b - a > CAP - len);
            assert!(heap.inner.byte_len == old);
            kani::cover!(true);
        }
    }
    std::mem::forget(heap);
}

#[kani::proof]
#[kani::unwind(10)]
#[kani::stub(InnerHeap::grow, grow_fail)]
fn c33_append_pinned() {
    const OTHER: usize = 3;
    let len: usize = kani::any();
    kani::assume(len <= CAP);
    let olen: usize = kani::any();
    kani::assume(olen <= OTHER);
    let mut heap = mk_heap(CAP, len);
    let other = mk_heap(OTHER, olen);
    let old = heap.inner.byte_len;
    match heap.append(&other) {
        Ok(()) => {
            assert!(heap_inv(&heap));
            assert!(heap.inner.byte_len == old + 8 * olen);
            kani::cover!(olen == CAP - len && olen > 0);
        }
        Err(_) => {
            assert!(olen > CAP - len);
            assert!(heap.inner.byte_len == old);
            kani::cover!(true);
        }
    }
    std::mem::forget(heap);
    std::mem::forget(other);
}

// F3 lives here: string of symbolic length 1..=7 planted at cell 1, symbolic fill level.
#[kani::proof]
#[kani::unwind(18)]
#[kani::stub(InnerHeap::grow, grow_fail)]
fn c33_copy_pstr_within_pinned() {
    let len: usize = kani::any();
    kani::assume(len >= 3 && len <= CAP);
    let mut heap = mk_heap(CAP, len);
    let s_len: usize = kani::any();
    kani::assume(s_len >= 1 && s_len <= 7);
    unsafe { plant(&mut heap, 8, s_len, 16, b'a') };
    let old = heap.inner.byte_len;
    match heap.copy_pstr_within(8) {
        Ok(tail) => {
            assert!(heap.inner.byte_len <= heap.inner.byte_cap);
            assert!(heap_inv(&heap));
            assert!(tail == if s_len == 7 { 3 } else { 2 });
            kani::cover!(s_len == 7);
            kani::cover!(heap.inner.byte_len == heap.inner.byte_cap);
        }
        Err(_) => {
            assert!(heap.inner.byte_len == old);
            kani::cover!(true);
        }
    }
    std::mem::forget(heap);
}

// same, two-cell strings (8..=15 bytes) so that the s_len % 8 == 7 case recurs at 15
#[kani::proof]
#[kani::unwind(26)]
#[kani::stub(InnerHeap::grow, grow_fail)]
fn c33_copy_pstr_within_pinned_long() {
    const CAPL: usize = 9;
    let len: usize = kani::any();
    kani::assume(len >= 4 && len <= CAPL);
    let mut heap = mk_heap(CAPL, len);
    let s_len: usize = kani::any();
    kani::assume(s_len >= 8 && s_len <= 15);
    unsafe { plant(&mut heap, 8, s_len, 24, b'a') };
    let old = heap.inner.byte_len;
    match heap.copy_pstr_within(8) {
        Ok(tail) => {
            assert!(heap.inner.byte_len <= heap.inner.byte_cap);
            assert!(heap_inv(&heap));
            assert!(tail == if s_len == 15 { 4 } else { 3 });
            kani::cover!(s_len == 15);
        }
        Err(_) => {
            assert!(heap.inner.byte_len == old);
            kani::cover!(true);
        }
    }
    std::mem::forget(heap);
}

// reserve(compute_pstr_size(s)) followed by the segment writer: bytes written fit the
// reservation, for every concrete length L in the generated family.
macro_rules! c33_segment_fits {
    ($name:ident, $L:expr, $U:expr) => {
        #[kani::proof]
        #[kani::unwind($U)]
        #[kani::stub(InnerHeap::grow, grow_fail)]
        fn $name() {
            const L: usize = $L;
            const NEED: usize = L / 8 + 3; // cells: string (+1 when L%8==7) + tail, rounded up
            let len: usize = kani::any();
            kani::assume(len <= 2);
            let mut heap = mk_heap(NEED + 2, len);
            let b: [u8; L] = kani::any();
            let mut i = 0;
            while i < L {
                kani::assume(b[i] != 0 && b[i] < 128);
                i += 1;
            }
            let s = unsafe { std::str::from_utf8_unchecked(&b) };
            let size = Heap::compute_pstr_size(s);
            assert!(size % 8 == 0);
            // the callers pass a byte count where cells are expected (over-reserves 8x);
            // the claim checked is the one safety needs: reserved cells >= cells written.
            let cells = cell_index!(size);
            let mut w = heap.reserve(cells).unwrap();
            let r = w.write_with(|section| section.push_pstr_segment(s));
            assert!(r.bytes_written + 8 <= size); // + the tail cell the caller adds
            assert!(r.result * 8 == r.bytes_written);
            assert!(heap_inv(&heap));
            std::mem::forget(heap);
        }
    };
}
c33_segment_fits!(c33_segment_fits_1, 1, 4);
c33_segment_fits!(c33_segment_fits_6, 6, 9);
c33_segment_fits!(c33_segment_fits_7, 7, 10);
c33_segment_fits!(c33_segment_fits_8, 8, 11);
c33_segment_fits!(c33_segment_fits_9, 9, 12);
c33_segment_fits!(c33_segment_fits_15, 15, 18);
c33_segment_fits!(c33_segment_fits_16, 16, 19);
c33_segment_fits!(c33_segment_fits_17, 17, 20);

// growth path with the real InnerHeap::grow (real alloc/realloc model of CBMC)
#[kani::proof]
#[kani::unwind(10)]
fn c33_push_cell_grows() {
    const C: usize = 2;
    let len: usize = kani::any();
    kani::assume(len <= C);
    let mut heap = mk_heap(C, len);
    let cell = any_cell();
    let r = heap.push_cell(cell);
    assert!(r.is_ok());
    assert!(heap_inv(&heap));
    assert!(heap.inner.byte_len == 8 * (len + 1));
    assert!(heap[len] == cell);
    kani::cover!(heap.inner.byte_cap == 32);
    std::mem::forget(heap);
}

#[kani::proof]
#[kani::unwind(10)]
fn c33_reserve_grows() {
    const C: usize = 2;
    let len: usize = kani::any();
    kani::assume(len <= C);
    let n: usize = kani::any();
    kani::assume(n <= 6);
    let mut heap = mk_heap(C, len);
    let r = heap.reserve(n);
    assert!(r.is_ok());
    assert!(heap_inv(&heap));
    assert!(heap.inner.byte_cap - heap.inner.byte_len >= 8 * n);
    kani::cover!(heap.inner.byte_cap == 64);
    std::mem::forget(heap);
}

#[kani::proof]
#[kani::unwind(4)]
fn c33_with_cell_capacity() {
    let cap: usize = kani::any();
    kani::assume(cap >= 1 && cap <= 8);
    match Heap::with_cell_capacity(cap) {
        Ok(h) => {
            assert!(heap_inv(&h));
            assert!(h.inner.byte_cap == 8 * cap && h.inner.byte_len == 0);
            std::mem::forget(h);
        }
        Err(_) => assert!(false),
    }
}

// allocate_cstr / allocate_pstr on concrete texts with embedded NULs (several segments, link
// cells, NUL char cells): whatever is reserved must cover whatever push_pstr writes. The text is
// concrete (str::find on symbolic bytes defeats CBMC), the fill level is symbolic.
macro_rules! c33_alloc_str {
    ($name:ident, $text:expr, $cstr:expr) => {
        #[kani::proof]
        #[kani::unwind(24)]
        #[kani::stub(InnerHeap::grow, grow_fail)]
        fn $name() {
            const CAPS: usize = 160;
            let len: usize = kani::any();
            kani::assume(len <= CAPS);
            let mut heap = mk_heap(CAPS, len);
            let old = heap.inner.byte_len;
            let r = if $cstr { heap.allocate_cstr($text) } else { heap.allocate_pstr($text) };
            match r {
                Ok(_) => {
                    assert!(heap.inner.byte_len <= heap.inner.byte_cap);
                    assert!(heap_inv(&heap));
                    assert!(heap.inner.byte_len > old);
                    kani::cover!(true);
                }
                Err(_) => {
                    assert!(heap.inner.byte_len == old);
                    kani::cover!(true);
                }
            }
            std::mem::forget(heap);
        }
    };
}
c33_alloc_str!(c33_allocate_cstr_nul_segments, "a\0b\0c\0d", true);
c33_alloc_str!(c33_allocate_pstr_nul_segments, "ab\0\0cd\0e", false);
c33_alloc_str!(c33_allocate_cstr_plain7, "abcdefg", true);

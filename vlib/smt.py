"""Thin SMT-LIB2 driver: one z3 process per script (scripts batch their queries with push/pop);
optional cvc5 cross-check. Any `(error` line makes the whole answer inconclusive."""
import os
import subprocess
import time

Z3 = os.environ.get("VERIF_Z3", "/usr/bin/z3")
CVC5 = os.environ.get("VERIF_CVC5", "cvc5")


def run_z3(script, timeout=120):
    t0 = time.time()
    try:
        p = subprocess.run([Z3, "-in", "-T:%d" % timeout], input=script, capture_output=True,
                           text=True, timeout=timeout + 30)
        out = p.stdout
    except subprocess.TimeoutExpired:
        out = "timeout"
    return out, time.time() - t0


def run_cvc5(script, timeout=120):
    t0 = time.time()
    try:
        p = subprocess.run([CVC5, "--lang", "smt2", "--incremental", "--tlimit=%d" % (timeout * 1000)],
                           input=script, capture_output=True, text=True, timeout=timeout + 30)
        out = p.stdout + p.stderr
    except (subprocess.TimeoutExpired, OSError):
        out = "timeout"
    return out, time.time() - t0


def answers(out):
    """list of sat/unsat/unknown answers in order; None if any error line is present"""
    if "(error" in out or "timeout" in out:
        return None
    return [l.strip() for l in out.splitlines() if l.strip() in ("sat", "unsat", "unknown")]


def check(script, thorough=False, timeout=120):
    """Returns dict(answers=[...]|None, z3_s, cvc5_s, agree). Models are read by the caller from
    `out` when needed."""
    out, s = run_z3(script, timeout)
    res = {"answers": answers(out), "z3_s": round(s, 3), "out": out, "agree": None}
    if thorough:
        # cvc5 has no (get-model) trouble here; drop get-model/get-value lines for the cross-check
        s2 = "\n".join(l for l in script.splitlines()
                       if not l.startswith("(get-model") and not l.startswith("(get-value"))
        out2, t2 = run_cvc5(s2, timeout)
        a2 = answers(out2)
        res["cvc5_s"] = round(t2, 3)
        res["cvc5_answers"] = a2
        res["agree"] = (a2 == res["answers"])
    return res


def check_batch(queries, thorough=False, timeout=120, getvals=None):
    """queries: list of self-contained declaration+assert blocks (no set-logic, no check-sat).
    All are sent to ONE solver process, each inside (push)/(pop). Returns list of dicts
    {answer, model_text}. Queries answered `sat` are re-run (second process) with get-value on
    `getvals[i]` to read the model."""
    def script(items, with_vals):
        out = ["(set-logic ALL)"]
        for i, q in items:
            out.append("(push)")
            out.append(q)
            out.append("(check-sat)")
            if with_vals and getvals and getvals[i]:
                out.append("(get-value (%s))" % " ".join(getvals[i]))
            out.append("(pop)")
        return "\n".join(out) + "\n"
    items = list(enumerate(queries))
    out, secs = run_z3(script(items, False), timeout)
    ans = answers(out)
    res = {"z3_s": round(secs, 3), "results": None, "agree": None}
    if ans is None or len(ans) != len(queries):
        return res
    results = [{"answer": a, "model": None} for a in ans]
    sat_items = [(i, q) for (i, q), a in zip(items, ans) if a == "sat"]
    if sat_items and getvals:
        out2, s2 = run_z3(script(sat_items, True), timeout)
        res["z3_s"] = round(secs + s2, 3)
        chunks = out2.split("sat\n")[1:]
        for (i, _), ch in zip(sat_items, chunks):
            results[i]["model"] = ch.strip()
    res["results"] = results
    if thorough:
        out3, s3 = run_cvc5(script(items, False), timeout)
        a3 = answers(out3)
        res["cvc5_s"] = round(s3, 3)
        res["cvc5_answers"] = a3
        res["agree"] = (a3 == ans)
    return res

"""Run one property's Kani harness family, triage results, replay failures, write evidence."""
import json
import os
import re
import time

from . import kani
from .common import (EXIT_INCONCLUSIVE, EXIT_OK, EXIT_VIOLATION, REPLAY_DIR, VERIF, Timer,
                     known_for, log, seed, write_evidence)
from . import replay as replay_mod


def match_known(prop, r, witness_text):
    """A known finding matches on (harness name regex, failed-check regex, witness regex)."""
    for e in known_for(prop):
        k = e.get("match", {})
        if k.get("engine", "kani") != "kani":
            continue
        if not re.search(k.get("harness", ".*"), r.h.name):
            continue
        descs = " | ".join(d for d, _ in r.property_failures())
        if not re.search(k.get("check", ".*"), descs):
            continue
        if k.get("witness") and not re.search(k["witness"], witness_text or ""):
            continue
        return e
    return None


def run(prop, harnesses, tier, assumptions, encoded, bounds_text, outside, level_extra=None,
        post=None):
    """Returns exit code. `post(results)` may add M-engine sub-results (dict) to merge."""
    tm = Timer()
    hs = [h for h in harnesses if tier in h.tiers]
    only = os.environ.get("VERIF_ONLY")
    if only:
        hs = [h for h in harnesses if re.search(only, h.name)]
    log("[%s] tier=%s: %d Kani harnesses (est. %ds CPU)" % (prop, tier, len(hs),
                                                            sum(h.cost for h in hs)))
    results, meta = kani.run_harnesses(hs, "%s.%s.%d" % (prop, tier, os.getpid()))
    violations, known_hits, inconclusive = [], [], []
    passed = 0
    for r in sorted(results, key=lambda r: r.h.name):
        v = r.verdict()
        log("  %-44s %-12s checks %d/%d covers %d/%d  %.1fs" % (
            r.h.name, v, r.checks_total - r.checks_failed, r.checks_total, r.covers_sat,
            r.covers_total, r.time_s))
        if v == "pass":
            passed += 1
        elif v == "fail":
            for d, loc in r.property_failures()[:6]:
                log("      FAILED CHECK: %s @ %s" % (d, loc))
            rp = replay_mod.replay_kani_failure(prop, r)
            if rp["reproduced"]:
                e = match_known(prop, r, rp.get("witness_text", ""))
                if e:
                    known_hits.append((e, r, rp))
                else:
                    violations.append((r, rp))
            else:
                log("      counterexample did not reproduce natively (%s) -> inconclusive" %
                    rp.get("why", "?"))
                inconclusive.append((r, "counterexample not reproduced: " + rp.get("why", "")))
        else:
            why = v
            if v == "vacuous":
                why = "unsatisfied cover(s): " + "; ".join(d for d, _ in r.covers_unsat[:4])
            elif v == "unwind":
                why = "unwinding assertion failed (bound too small)"
            elif r.status in ("TIMEOUT", "ERROR", "MISSING"):
                why = r.status
            inconclusive.append((r, why))
            log("      INCONCLUSIVE: %s" % why)
    for be in meta.get("build_errors", []):
        log("  BUILD ERROR in %s: %s" % (be["log"], be["errors"]))

    extra = post(results) if post else {}

    for e, r, rp in known_hits:
        log("KNOWN-FINDING: property=%s %s" % (prop, e.get("what", "")))
    for r, rp in violations:
        log("VIOLATION property=%s replay=%s" % (prop, rp["path"]))

    total_checks = sum(r.checks_total for r in results)
    discharged = sum(r.checks_total - r.checks_failed for r in results if r.status in (
        "SUCCESSFUL", "FAILED"))
    samples = []
    for r in sorted(results, key=lambda r: r.h.name)[:40]:
        samples.append({"harness": r.h.modpath, "what": r.h.desc, "bounds": r.h.bounds,
                        "verdict": r.verdict(), "cbmc_checks": r.checks_total,
                        "covers": "%d/%d" % (r.covers_sat, r.covers_total),
                        "vccs": r.vccs, "sat_vars": r.sat_vars, "sat_clauses": r.sat_clauses,
                        "solver_s": r.time_s})
    cov = {
        "evaluations": len(results) + extra.get("evaluations", 0),
        "distinct_nontrivial": passed + extra.get("distinct_nontrivial", 0) + len(known_hits),
        "rule": ("one evaluation = one solver-decided harness (CBMC/cadical over the compiled "
                 "real code, all inputs inside the stated bound) or one SMT query of the MIR "
                 "encoder; counted non-trivial when the verdict was reached with every "
                 "unwinding assertion and every reachability cover satisfied"),
        "samples": samples + extra.get("samples", []),
        "exhaustive": False,
        "engine": "kani 0.68 / CBMC 6.11 / cadical" + (" + mirsmt/z3" if extra else ""),
        "functions_encoded": list(encoded),
        "bounds": bounds_text,
        "outside_claim": outside,
        "harnesses_run": len(results),
        "harnesses_passed": passed,
        "harnesses_inconclusive": [{"harness": r.h.name, "why": w} for r, w in inconclusive],
        "cbmc_checks_total": total_checks,
        "cbmc_checks_discharged": discharged,
        "covers_satisfied": sum(r.covers_sat for r in results),
        "covers_total": sum(r.covers_total for r in results),
        "stubs_applied": sorted({s for r in results for s in r.stubs_applied}),
        "solver_seconds": round(sum(r.time_s for r in results), 1),
        "known_findings_hit": [e.get("id") for e, _, _ in known_hits],
        "violations": [{"harness": r.h.name, "replay": rp["path"],
                        "failed": [d for d, _ in r.property_failures()[:4]]}
                       for r, rp in violations],
    }
    for k, v in extra.items():
        if k not in ("evaluations", "distinct_nontrivial", "samples", "exit"):
            cov[k] = v
    if level_extra:
        cov.update(level_extra)
    write_evidence(prop, tier, "model_checking", cov, assumptions, tm.s(), len(violations))
    if violations or extra.get("exit") == EXIT_VIOLATION:
        return EXIT_VIOLATION
    if inconclusive or meta.get("build_errors") or extra.get("exit") == EXIT_INCONCLUSIVE:
        log("[%s] INCONCLUSIVE: %d harness(es) gave no verdict" % (prop, len(inconclusive)))
        return EXIT_INCONCLUSIVE
    log("[%s] held on everything explored (%d harnesses, %d CBMC checks, %.0fs)" % (
        prop, len(results), total_checks, tm.s()))
    return EXIT_OK

"""Shared paths, evidence writer, known-findings handling for /verif checks."""
import json
import os
import sys
import time

VERIF = os.path.dirname(os.path.dirname(os.path.abspath(__file__)))
REPO = os.environ.get("VERIF_REPO", "/repo")
CACHE = os.environ.get("VERIF_CACHE", "/var/tmp/verif-cache")
EVIDENCE_DIR = os.path.join(VERIF, "evidence")
REPLAY_DIR = os.path.join(VERIF, "replays")
KNOWN = os.path.join(VERIF, "known_findings.json")

EXIT_OK, EXIT_VIOLATION, EXIT_INCONCLUSIVE = 0, 1, 2


def log(*a):
    print(*a, flush=True)


def seed():
    try:
        return int(os.environ.get("VERIF_SEED", "0"))
    except ValueError:
        return 0


def tier_from(argv_tier):
    t = argv_tier or os.environ.get("VERIF_TIER") or "quick"
    return t if t in ("quick", "thorough") else "quick"


def load_known():
    if not os.path.exists(KNOWN):
        return []
    with open(KNOWN) as f:
        return json.load(f).get("entries", [])


def known_for(prop):
    """Entries with status == 'known' for a property (fixed entries suppress nothing)."""
    return [e for e in load_known() if e.get("property") == prop and e.get("status") == "known"]


def write_evidence(prop, tier, level, coverage, assumptions, wall_s, violations):
    os.makedirs(EVIDENCE_DIR, exist_ok=True)
    ev = {
        "property_id": prop,
        "tier": tier,
        "seed": seed(),
        "level": level,
        "coverage": coverage,
        "assumptions": assumptions,
        "wall_s": round(wall_s, 2),
        "violations": violations,
    }
    path = os.path.join(EVIDENCE_DIR, prop + ".json")
    tmp = path + ".tmp"
    with open(tmp, "w") as f:
        json.dump(ev, f, indent=1, sort_keys=False)
        f.write("\n")
    os.replace(tmp, path)
    return path


class Timer:
    def __init__(self):
        self.t0 = time.time()

    def s(self):
        return time.time() - self.t0

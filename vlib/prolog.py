"""Native replay through Prolog: build scryer-prolog from the current working tree (dev profile,
cached outside /repo) and run goals whose expected answers come from the specification side of a
solver query."""
import fcntl
import json
import os
import subprocess
import time

from .common import CACHE, REPLAY_DIR, REPO, log

BIN_DIR = os.path.join(CACHE, "bin")


def build_binary(profile="dev"):
    """returns path of the scryer-prolog binary built from /repo's working tree, or None"""
    os.makedirs(BIN_DIR, exist_ok=True)
    with open(os.path.join(BIN_DIR, "lock"), "w") as lf:
        fcntl.flock(lf, fcntl.LOCK_EX)
        src = os.path.join(BIN_DIR, "src")
        subprocess.run(["rsync", "-a", "--delete", "--exclude", "/target", "--exclude", "/.git",
                        REPO + "/", src + "/"], check=True)
        env = dict(os.environ)
        env["CARGO_NET_OFFLINE"] = "true"
        env.pop("RUSTUP_TOOLCHAIN", None)
        args = ["cargo", "build", "--offline", "--bin", "scryer-prolog", "--target-dir",
                os.path.join(BIN_DIR, "target")]
        if profile == "release":
            args.append("--release")
        with open(os.path.join(BIN_DIR, "build.log"), "w") as f:
            rc = subprocess.run(args, cwd=src, stdout=f, stderr=subprocess.STDOUT, env=env).returncode
        exe = os.path.join(BIN_DIR, "target", "release" if profile == "release" else "debug",
                           "scryer-prolog")
        if rc != 0 or not os.path.exists(exe):
            return None
        return exe


def run_program(exe, program, goal, timeout=60):
    os.makedirs(os.path.join(BIN_DIR, "tmp"), exist_ok=True)
    pl = os.path.join(BIN_DIR, "tmp", "replay_%d.pl" % os.getpid())
    with open(pl, "w") as f:
        f.write(program)
    try:
        p = subprocess.run([exe, "-f", "--no-add-history", pl, "-g", goal], capture_output=True,
                           text=True, timeout=timeout, stdin=subprocess.DEVNULL)
        return p.returncode, p.stdout, p.stderr
    except subprocess.TimeoutExpired:
        return -9, "", "timeout"
    finally:
        try:
            os.unlink(pl)
        except OSError:
            pass


def run_cases(program, cases, record, prop, name):
    """cases: [(goal_text, expected_output_line)]. Each goal must print one line.
    Returns replay record (written to REPLAY_DIR/prop/name.json)."""
    os.makedirs(os.path.join(REPLAY_DIR, prop), exist_ok=True)
    path = os.path.join(REPLAY_DIR, prop, name + ".json")
    rec = dict(record)
    rec.update({"engine": "prolog", "property": prop, "program": program, "cases": cases,
                "path": path, "reproduced": False, "when": time.strftime("%Y-%m-%dT%H:%M:%S")})
    exe = build_binary()
    if not exe:
        rec["why"] = "building scryer-prolog from the working tree failed"
    else:
        mism = []
        for goal, want in cases:
            g = "catch((%s), E, (write(exception(E)), nl)), halt" % goal
            rc, out, err = run_program(exe, program, g)
            got = out.strip().split("\n")[-1] if out.strip() else "<no output rc=%s %s>" % (
                rc, err.strip()[-200:])
            if got != want:
                mism.append({"goal": goal, "want": want, "got": got})
        rec["mismatches"] = mism
        rec["reproduced"] = bool(mism)
        if not mism:
            rec["why"] = "all %d goals answered as specified" % len(cases)
    with open(path, "w") as f:
        json.dump(rec, f, indent=1)
    return rec


def replay(rec):
    """./check <ID> --replay <file> for engine == prolog"""
    r = run_cases(rec["program"], [tuple(c) for c in rec["cases"]], {}, rec["property"],
                  os.path.basename(rec["path"]).replace(".json", "") + ".rerun")
    log(json.dumps(r.get("mismatches", r.get("why")), indent=1))
    return 1 if r["reproduced"] else 0


# ---------------------------------------------------------------- C04
CMP_PROGRAM = """
:- use_module(library(lists)).
t(Goal) :- ( catch(Goal, _, fail) -> write(true) ; write(false) ), nl.
% comparison as a non-last goal, as the last goal, and through call/1
nl_lt(X,Y) :- X < Y, true.    l_lt(X,Y) :- X < Y.
nl_le(X,Y) :- X =< Y, true.   l_le(X,Y) :- X =< Y.
nl_gt(X,Y) :- X > Y, true.    l_gt(X,Y) :- X > Y.
nl_ge(X,Y) :- X >= Y, true.   l_ge(X,Y) :- X >= Y.
nl_eq(X,Y) :- X =:= Y, true.  l_eq(X,Y) :- X =:= Y.
nl_ne(X,Y) :- X =\\= Y, true.  l_ne(X,Y) :- X =\\= Y.
"""

REL = {"LessThan": ("lt", "<"), "LessThanOrEqual": ("le", "=<"), "GreaterThan": ("gt", ">"),
       "GreaterThanOrEqual": ("ge", ">="), "Equal": ("eq", "=:="), "NotEqual": ("ne", "=\\=")}
HOLDS = {"lt": lambda a, b: a < b, "le": lambda a, b: a <= b, "gt": lambda a, b: a > b,
         "ge": lambda a, b: a >= b, "eq": lambda a, b: a == b, "ne": lambda a, b: a != b}


def replay_compare_arms(viol):
    cases = []
    pairs = [(1, 2), (2, 2), (3, 2), (2**60, 2**60 + 1), (-5, -5)]
    for v in viol:
        short, op = REL[v["rel"]]
        for a, b in pairs:
            want = "true" if HOLDS[short](a, b) else "false"
            for pred in ("nl_" + short, "l_" + short):
                cases.append(("t(%s(%d,%d))" % (pred, a, b), want))
            cases.append(("t(call(%s, %d, %d))" % (op, a, b), want))
            cases.append(("X is %d+0, Y is %d+0, t(X %s Y)" % (a, b, op), want))
    cases = sorted(set(cases))
    return run_cases(CMP_PROGRAM, cases, {"model": viol}, "C04", "compare_arms")

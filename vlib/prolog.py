"""Native replay through Prolog: build scryer-prolog from the current working tree (dev profile,
cached outside /repo) and run goals whose expected answers come from the specification side of a
solver query."""
import fcntl
import json
import os
import re
import subprocess
import time

from .common import CACHE, REPLAY_DIR, REPO, log

BIN_DIR = os.path.join(CACHE, "bin")


def build_binary(profile="dev"):
    """returns path of the scryer-prolog binary built from /repo's working tree, or None"""
    os.makedirs(BIN_DIR, exist_ok=True)
    with open(os.path.join(BIN_DIR, "lock"), "w") as lf:
        fcntl.flock(lf, fcntl.LOCK_EX)
        src = os.path.join(BIN_DIR, "src")
        from . import mir as _mir
        _mir.sync_repo(src)
        env = dict(os.environ)
        env["CARGO_NET_OFFLINE"] = "true"
        env.pop("RUSTUP_TOOLCHAIN", None)
        args = ["cargo", "build", "--offline", "--bin", "scryer-prolog", "--target-dir",
                os.path.join(BIN_DIR, "target")]
        if profile == "release":
            args.append("--release")
        with open(os.path.join(BIN_DIR, "build.log"), "w") as f:
            rc = subprocess.run(args, cwd=src, stdout=f, stderr=subprocess.STDOUT, env=env).returncode
        exe = os.path.join(BIN_DIR, "target", "release" if profile == "release" else "debug",
                           "scryer-prolog")
        if rc != 0 or not os.path.exists(exe):
            return None
        return exe


def run_program(exe, program, goal, timeout=60):
    os.makedirs(os.path.join(BIN_DIR, "tmp"), exist_ok=True)
    pl = os.path.join(BIN_DIR, "tmp", "replay_%d.pl" % os.getpid())
    with open(pl, "w") as f:
        f.write(program)
    try:
        p = subprocess.run([exe, "-f", "--no-add-history", pl, "-g", goal], capture_output=True,
                           text=True, timeout=timeout, stdin=subprocess.DEVNULL)
        return p.returncode, p.stdout, p.stderr
    except subprocess.TimeoutExpired:
        return -9, "", "timeout"
    finally:
        try:
            os.unlink(pl)
        except OSError:
            pass


def run_batch(exe, program, cases, chunk=64):
    """many goals per process (start-up of the debug binary dominates): each goal prints one
    line; a goal that fails or throws prints a marker line instead"""
    outs = []
    for i in range(0, len(cases), chunk):
        part = cases[i:i + chunk]
        clauses = "\n".join("b_g(%d) :- %s." % (k, g) for k, (g, _) in enumerate(part))
        body = ", ".join("b_(%d)" % k for k in range(len(part)))
        prog = program + ("\n:- discontiguous(b_g/1).\n%s\nb_(K) :- write(K), write(' '), "
                          "( catch(b_g(K), E, (write(exception(E)), nl)) -> true ; write(failed), nl ).\n"
                          "b_main :- %s.\n" % (clauses, body))
        rc, out, err = run_program(exe, prog, "b_main, halt", timeout=600)
        got = {}
        for line in out.split("\n"):
            m = re.match(r"^(\d+) (.*)$", line)
            if m:
                got[int(m.group(1))] = m.group(2)
        for k in range(len(part)):
            outs.append(got.get(k, "<no output rc=%s %s>" % (rc, err.strip()[-200:])))
    return outs


def run_cases(program, cases, record, prop, name, batch=False, pairs_from=None):
    """cases: [(goal_text, expected_output_line)]. Each goal must print one line.
    Returns replay record (written to REPLAY_DIR/prop/name.json)."""
    os.makedirs(os.path.join(REPLAY_DIR, prop), exist_ok=True)
    path = os.path.join(REPLAY_DIR, prop, name + ".json")
    rec = dict(record)
    rec.update({"engine": "prolog", "property": prop, "program": program, "cases": cases,
                "batch": batch, "pairs_from": pairs_from,
                "path": path, "reproduced": False, "when": time.strftime("%Y-%m-%dT%H:%M:%S")})
    exe = build_binary()
    if not exe:
        rec["why"] = "building scryer-prolog from the working tree failed"
    else:
        mism = []
        if batch:
            outs = run_batch(exe, program, cases)
            for k, ((goal, want), got) in enumerate(zip(cases, outs)):
                if want is None:
                    # differential pair (from index pairs_from on): odd member must equal the even one
                    if got.startswith("exception(") or got.startswith("<no output") or got == "failed":
                        mism.append({"goal": goal, "want": "an outcome term", "got": got})
                    elif pairs_from is not None and (k - pairs_from) % 2 == 1 and got != outs[k - 1]:
                        mism.append({"goal": goal, "want": outs[k - 1], "got": got,
                                     "reference_goal": cases[k - 1][0]})
                elif got != want:
                    mism.append({"goal": goal, "want": want, "got": got})
        for goal, want in ([] if batch else cases):
            g = "catch((%s), E, (write(exception(E)), nl)), halt" % goal
            rc, out, err = run_program(exe, program, g)
            got = out.strip().split("\n")[-1] if out.strip() else "<no output rc=%s %s>" % (
                rc, err.strip()[-200:])
            if got != want:
                mism.append({"goal": goal, "want": want, "got": got})
        rec["mismatches"] = mism
        rec["reproduced"] = bool(mism)
        if not mism:
            rec["why"] = "all %d goals answered as specified" % len(cases)
    with open(path, "w") as f:
        json.dump(rec, f, indent=1)
    return rec


def replay(rec):
    """./check <ID> --replay <file> for engine == prolog"""
    r = run_cases(rec["program"], [tuple(c) for c in rec["cases"]], {}, rec["property"],
                  os.path.basename(rec["path"]).replace(".json", "") + ".rerun",
                  batch=rec.get("batch", False), pairs_from=rec.get("pairs_from"))
    log(json.dumps(r.get("mismatches", r.get("why")), indent=1))
    return 1 if r["reproduced"] else 0


# ---------------------------------------------------------------- C04
CMP_PROGRAM = """
:- use_module(library(lists)).
t(Goal) :- ( catch(Goal, _, fail) -> write(true) ; write(false) ), nl.
% comparison as a non-last goal, as the last goal, and through call/1
nl_lt(X,Y) :- X < Y, true.    l_lt(X,Y) :- X < Y.
nl_le(X,Y) :- X =< Y, true.   l_le(X,Y) :- X =< Y.
nl_gt(X,Y) :- X > Y, true.    l_gt(X,Y) :- X > Y.
nl_ge(X,Y) :- X >= Y, true.   l_ge(X,Y) :- X >= Y.
nl_eq(X,Y) :- X =:= Y, true.  l_eq(X,Y) :- X =:= Y.
nl_ne(X,Y) :- X =\\= Y, true.  l_ne(X,Y) :- X =\\= Y.
"""

REL = {"LessThan": ("lt", "<"), "LessThanOrEqual": ("le", "=<"), "GreaterThan": ("gt", ">"),
       "GreaterThanOrEqual": ("ge", ">="), "Equal": ("eq", "=:="), "NotEqual": ("ne", "=\\=")}
HOLDS = {"lt": lambda a, b: a < b, "le": lambda a, b: a <= b, "gt": lambda a, b: a > b,
         "ge": lambda a, b: a >= b, "eq": lambda a, b: a == b, "ne": lambda a, b: a != b}


def replay_compare_arms(viol):
    cases = []
    pairs = [(1, 2), (2, 2), (3, 2), (2**60, 2**60 + 1), (-5, -5)]
    for v in viol:
        short, op = REL[v["rel"]]
        for a, b in pairs:
            want = "true" if HOLDS[short](a, b) else "false"
            for pred in ("nl_" + short, "l_" + short):
                cases.append(("t(%s(%d,%d))" % (pred, a, b), want))
            cases.append(("t(call(%s, %d, %d))" % (op, a, b), want))
            cases.append(("X is %d+0, Y is %d+0, t(X %s Y)" % (a, b, op), want))
    cases = sorted(set(cases))
    return run_cases(CMP_PROGRAM, cases, {"model": viol}, "C04", "compare_arms", batch=True)


# ---------------------------------------------------------------- C03
EVAL_PROGRAM = """
ev_lit(G) :- catch((G, true), error(E, _), (write(err(E)), nl, fail)).
show(X) :- write(X), nl.
"""


def replay_evaluators(diffs):
    """differential run of the compiled and the run-time evaluator on the functors the solver
    flagged: `X is <literal expr>` in a clause body against `E = <expr>, X is E`."""
    ops2 = [(7, 2), (-7, 2), (7, -2), (2.5, 2), (1.5, 2.5), (1, 3), (12, 18), (5, 0), (0, 5), (2, 10)]
    ops1 = [(-3,), (2.5,), (0.5,), (0,), (7,), (-2.5,)]
    clauses, cases = [], []
    n = 0
    for d in diffs:
        f, ar = d["functor"], d["arity"]
        if ar == 0:
            n += 1
            clauses.append("c%d(X) :- X is %s.\nr%d(X) :- E = %s, X is E." % (n, f, n, f))
            cases.append(("catch(c%d(A), error(EA,_), A = err(EA)), catch(r%d(B), error(EB,_), "
                          "B = err(EB)), ( A == B -> write(same) ; write(differ(A,B)) ), nl" % (n, n),
                          "same"))
            continue
        for ops in (ops2 if ar == 2 else ops1):
            n += 1
            args = ",".join(repr(o) if not isinstance(o, float) else repr(o) for o in ops)
            expr = "'%s'(%s)" % (f.replace("\\", "\\\\").replace("'", "\\'"), args)
            clauses.append("c%d(X) :- X is %s.\nr%d(X) :- E = %s, X is E." % (n, expr, n, expr))
            goal = ("catch(c%d(A), error(EA,_), A = err(EA)), catch(r%d(B), error(EB,_), "
                    "B = err(EB)), ( A == B -> write(same) ; write(differ(A,B)) ), nl" % (n, n))
            cases.append((goal, "same"))
    program = EVAL_PROGRAM + "\n".join(clauses) + "\n"
    return run_cases(program, cases, {"model": diffs}, "C03", "evaluators", batch=True)


# ---------------------------------------------------------------- C09
LUV_PROGRAM = """
:- dynamic(q/1).
:- dynamic(r/2).
:- dynamic(aux/1).
show(X) :- write(X), nl.
aux(9).
% a call sees exactly the clauses that existed when it started
t1 :- retractall(q(_)), assertz(q(1)), assertz(q(2)), assertz(q(3)),
      findall(X, (q(X), ( X =:= 1 -> assertz(q(4)), retract(q(3)) ; true )), L), show(L).
t2 :- retractall(q(_)), assertz(q(1)), assertz(q(2)),
      findall(X, (q(X), ( X =:= 1 -> retract(q(2)) ; true )), L1), findall(Y, q(Y), L2), show(L1-L2).
t3 :- retractall(q(_)), assertz(q(1)), findall(X, (q(X), X < 4, Y is X + 1, assertz(q(Y))), L1),
      findall(Z, q(Z), L2), show(L1-L2).
% bound first argument (indexed choice), retract is the first update after the call started
t4 :- retractall(r(_,_)), assertz(r(a,1)), assertz(r(b,2)), assertz(r(a,3)), assertz(r(a,4)),
      findall(V, (r(a,V), ( V =:= 1 -> retract(r(a,3)) ; true )), L1), findall(K-W, r(K,W), L2),
      show(L1-L2).
t5 :- retractall(q(_)), assertz(q(1)), retract(q(1)), assertz(q(2)), findall(X, q(X), L), show(L).
% a nested call to a dynamic predicate between the update and the resumption of the outer call
t6 :- retractall(q(_)), assertz(q(1)), assertz(q(2)), assertz(q(3)),
      findall(X, (q(X), ( X =:= 1 -> retract(q(2)), ( q(_) -> true ; true ) ; true )), L), show(L).
t7 :- retractall(q(_)), assertz(q(1)), assertz(q(2)), assertz(q(3)),
      findall(X, (q(X), ( X =:= 1 -> retract(q(2)), ( aux(_) -> true ; true ) ; true )), L), show(L).
t8 :- retractall(r(_,_)), assertz(r(a,1)), assertz(r(b,7)), assertz(r(a,2)), assertz(r(a,3)),
      findall(X, (r(a,X), ( X =:= 1 -> retract(r(a,2)), ( aux(_) -> true ; true ) ; true )), L), show(L).
t9 :- retractall(q(_)), assertz(q(1)), assertz(q(2)),
      findall(X, (q(X), ( X =:= 1 -> assertz(q(3)), ( q(_) -> true ; true ) ; true )), L), show(L).
% two indexed blocks of constants separated by a clause with a variable first argument; the call
% has an unbound argument and the update lands in the block the call has not reached yet
:- dynamic(s/1).
blocks :- retractall(s(_)), assertz(s(a)), assertz(s(b)), assertz((s(V) :- V = v)), assertz(s(c)), assertz(s(d)).
t10 :- blocks, findall(Y, (s(Y), ( Y == a -> assertz(s(e)) ; true )), L1), findall(Y, s(Y), L2), show(L1-L2).
t11 :- blocks, findall(Y, (s(Y), ( Y == c -> assertz(s(f)) ; true )), L1), findall(Y, s(Y), L2), show(L1-L2).
t12 :- blocks, findall(Y, (s(Y), ( Y == a -> retract(s(d)) ; true )), L1), findall(Y, s(Y), L2), show(L1-L2).
t13 :- blocks, findall(Y, (s(Y), ( Y == b -> asserta(s(z)), assertz(s(y)) ; true )), L1), findall(Y, s(Y), L2),
       show(L1-L2).
% clauses whose heads have no indexable argument (a plain dynamic_else chain); the update is the first one
% since the call started, lands before / at / after the clause the call is at
:- dynamic(v/1).
vset :- retractall(v(_)), assertz((v(X) :- X = 1)), assertz((v(X) :- X = 2)), assertz((v(X) :- X = 3)).
t14 :- vset, findall(X, (v(X), ( X =:= 1 -> assertz((v(Y) :- Y = 4)) ; true )), L1), findall(X, v(X), L2), show(L1-L2).
t15 :- vset, findall(X, (v(X), ( X =:= 2 -> assertz((v(Y) :- Y = 4)) ; true )), L1), findall(X, v(X), L2), show(L1-L2).
t16 :- vset, findall(X, (v(X), ( X =:= 3 -> assertz((v(Y) :- Y = 4)) ; true )), L1), findall(X, v(X), L2), show(L1-L2).
t17 :- vset, findall(X, (v(X), ( X =:= 1 -> retract((v(Y) :- Y = 3)) ; true )), L1), findall(X, v(X), L2), show(L1-L2).
t18 :- vset, findall(X, (v(X), ( X =:= 1 -> retract((v(Y) :- Y = 2)) ; true )), L1), findall(X, v(X), L2), show(L1-L2).
t19 :- vset, findall(X, (v(X), ( X =:= 2 -> asserta((v(Y) :- Y = 0)) ; true )), L1), findall(X, v(X), L2), show(L1-L2).
t20 :- retractall(v(_)), assertz((v(X) :- X = 1)),
       findall(X, (v(X), ( X =:= 1 -> assertz((v(Y) :- Y = 2)) ; true )), L1), findall(X, v(X), L2), show(L1-L2).
t21 :- retractall(q(_)), assertz(q(1)),
       findall(X, (q(X), ( X =:= 1 -> assertz(q(2)) ; true )), L1), findall(X, q(X), L2), show(L1-L2).
"""


def replay_logical_update_view(viol):
    cases = [("t1", "[1,2,3]"), ("t2", "[1,2]-[1]"), ("t3", "[1]-[1,2]"),
             ("t4", "[1,3,4]-[a-1,b-2,a-4]"), ("t5", "[2]"), ("t6", "[1,2,3]"), ("t7", "[1,2,3]"),
             ("t8", "[1,2,3]"), ("t9", "[1,2]"),
             ("t10", "[a,b,v,c,d]-[a,b,v,c,d,e]"), ("t11", "[a,b,v,c,d]-[a,b,v,c,d,f]"),
             ("t12", "[a,b,v,c,d]-[a,b,v,c]"), ("t13", "[a,b,v,c,d]-[z,a,b,v,c,d,y]"),
             ("t14", "[1,2,3]-[1,2,3,4]"), ("t15", "[1,2,3]-[1,2,3,4]"), ("t16", "[1,2,3]-[1,2,3,4]"),
             ("t17", "[1,2,3]-[1,2]"), ("t18", "[1,2,3]-[1,3]"), ("t19", "[1,2,3]-[0,1,2,3]"),
             ("t20", "[1]-[1,2]"), ("t21", "[1]-[1,2]")]
    return run_cases(LUV_PROGRAM, cases, {"model": viol}, "C09", "logical_update_view")


# ---------------------------------------------------------------- C02 (libm wiring)
def replay_float_functions(diffs):
    """reference values computed by Python's libm (same C library family, correctly rounded for
    the exactly representable cases chosen; pow cases checked against exact rationals)"""
    import math
    from fractions import Fraction
    cases = []

    def fmt(v):
        return repr(float(v))
    table = {
        "float_pow": [("X is 1.1 ** 10", None), ("X is 1.01 ** 5", None), ("X is 9.9 ** 9", None),
                      ("X is 2.0 ** 0.5", math.sqrt(2.0))],
        "int_pow": [("X is 2.5 ^ 3", 15.625), ("X is 1.1 ^ 10", None)],
        "sqrt": [("X is sqrt(2.0)", math.sqrt(2.0)), ("X is sqrt(16)", 4.0)],
        "sin": [("X is sin(1.0)", math.sin(1.0))], "cos": [("X is cos(1.0)", math.cos(1.0))],
        "tan": [("X is tan(1.0)", math.tan(1.0))], "log": [("X is log(10.0)", math.log(10.0))],
        "exp": [("X is exp(1.0)", math.exp(1.0))], "asin": [("X is asin(0.5)", math.asin(0.5))],
        "acos": [("X is acos(0.5)", math.acos(0.5))], "atan": [("X is atan(2.0)", math.atan(2.0))],
        "atan2": [("X is atan2(1.0, 3.0)", math.atan2(1.0, 3.0))],
        "float_fractional_part": [("X is float_fractional_part(2.75)", 0.75)],
        "float_integer_part": [("X is float_integer_part(-2.75)", -2.0)],
        "round": [("X is round(0.49999999999999994)", 0), ("X is round(2.5)", 3),
                  ("X is round(4503599627370497.0)", 4503599627370497)],
    }
    exact_pow = {"X is 1.1 ** 10": (1.1, 10), "X is 1.01 ** 5": (1.01, 5),
                 "X is 9.9 ** 9": (9.9, 9), "X is 1.1 ^ 10": (1.1, 10)}
    for d in diffs:
        for goal, want in table.get(d["kernel"], []):
            if want is None:
                b, e = exact_pow[goal]
                want = float(Fraction(b) ** e)       # correctly rounded exact power
            w = fmt(want) if isinstance(want, float) else str(want)
            cases.append((goal + ", write(X), nl", w))
    return run_cases("", cases, {"model": diffs}, "C02", "float_functions")


# ---------------------------------------------------------------- C11
BT_PROGRAM = """
:- use_module(library(lists)).
:- use_module(library(cont)).
% unbound permanent variables, a newer choice point, a captured continuation, then backtracking
sq(_).
salt(1). salt(2).
sstep(1) :- shift(ball).
sstep(2) :- length(L, 3000), maplist(=(x), L).
sbody(R) :- sq(Y), sq(Z), sq(W), salt(I), sstep(I),
            ( var(Y), var(Z), var(W) -> R = unbound ; R = clobbered ).
t7 :- reset(sbody(R), Ball, _), Ball \\== ball, !, show(R).
:- use_module(library(atts)).
:- use_module(library(dif)).
:- use_module(library(freeze)).
show(X) :- write(X), nl.
p(1). p(2).
% older heap variable bound inside a failing branch must be unbound again
t1 :- X = f(_A, B), ( B = 1, fail ; true ), ( var(B) -> show(ok) ; show(bound(B)) ).
% older variable bound in one clause alternative, retried
t2 :- findall(Y-Z, (Y = g(W), p(Z), ( Z =:= 1 -> W = a ; true ), ( Z =:= 2 -> ( var(W) -> true ; fail ) ; true )), L), length(L, N), show(N).
% stack (permanent) variable across a choice point
t3 :- q3(R), show(R).
q3(R) :- p(_), r3(V, K), ( K =:= 1 -> V = bound, fail ; R = V-K ).
q3(none).
r3(_, 1). r3(_, 2).
% attributed variable: binding undone on backtracking, constraint still active afterwards
t4 :- dif(X, a), ( X = b, fail ; true ), ( var(X) -> ( X = a -> show(lost_constraint) ; show(ok) ) ; show(bound(X)) ).
t5 :- freeze(X, fail), ( \\+ X = 1 -> ( var(X) -> show(ok) ; show(bound) ) ; show(goal_not_run) ).
% if-then-else condition and negation leave no bindings
t6 :- ( \\+ (X = 1, Y = 2) -> show(wrong) ; ( var(X), var(Y) -> show(ok) ; show(bound(X,Y)) ) ).
% backtrackable global variables: the previous value of every kind comes back
:- use_module(library(iso_ext)).
gv(Key, Old) :- bb_b_put(Key, Old), ( bb_b_put(Key, other), fail ; true ), bb_get(Key, V),
                ( V == Old -> show(ok) ; show(got(V)) ).
t8 :- gv(k8, 7).
t9 :- gv(k9, f(_, "abc", [1,2])).
t10 :- X is 2^80 + 5, gv(k10, X).
t11 :- gv(k11, hello), ( bb_b_put(k11b, 1), fail ; true ), ( bb_get(k11b, V) -> show(still(V)) ; show(ok) ).
% attributes changed inside a failing branch
:- attribute colour/1, size/1.
verify_attributes(_, _, []).
t12 :- put_atts(X, colour(red)), put_atts(X, size(3)), ( put_atts(X, -colour(_)), fail ; true ),
       ( get_atts(X, colour(C)), C == red, get_atts(X, size(S)), S == 3 -> show(ok) ; show(lost) ).
t13 :- put_atts(X, colour(red)), ( put_atts(X, colour(blue)), fail ; true ),
       ( get_atts(X, colour(C)), C == red -> show(ok) ; show(lost) ).
t14 :- put_atts(X, colour(red)), ( put_atts(X, -colour(_)), fail ; true ),
       ( term_attributed_variables(X, Vs), Vs == [X], get_atts(X, colour(C)), C == red -> show(ok) ; show(lost) ).
t15 :- ( put_atts(X, colour(red)), fail ; true ),
       ( term_attributed_variables(X, []) -> show(ok) ; show(still_attributed) ).
% a key that exists without a backtrackable value (set by bb_put, or a previous bb_b_put undone)
t17 :- bb_put(k17, kept), ( bb_b_put(k17, temp), fail ; true ), bb_get(k17, V), ( V == kept -> show(ok) ; show(got(V)) ).
t18 :- ( bb_b_put(k18, 1), fail ; true ), ( bb_b_put(k18, 2), fail ; true ), ( bb_get(k18, V) -> show(still(V)) ; show(ok) ).
t19 :- bb_put(k19, kept), \\+ ( bb_b_put(k19, temp), fail ), findall(x, bb_b_put(k19, t2), [x]), bb_get(k19, V),
       ( V == kept -> show(ok) ; show(got(V)) ).
% a stack variable of an OLDER environment, globalised while a continuation is captured in a newer
% environment, after a choice point: unbound again after backtracking to that choice point
nb(_).
cp(1). cp(2).
older :- nb(Y), mid0(Y), after0(Y).
mid0(Y) :- cp(_), inner0(Y).
inner0(Y) :- bb_get(round0, R), ( R == 1 -> bb_put(round0, 2), shift(ball0), nb(Y) ; true ).
after0(Y) :- bb_get(round0, 2), length(L, 6), L = [a,b,c,d,e,f], ( var(Y) -> bb_put(res0, ok) ; bb_put(res0, bound(Y)) ).
t20 :- bb_put(round0, 1), bb_put(res0, none), ( reset(older, B, _), B == ball0, fail ; true ), bb_get(res0, R), show(R).
t16 :- put_atts(X, colour(red)), put_atts(X, size(3)),
       ( put_atts(X, -colour(_)), put_atts(X, -size(_)), fail ; true ),
       ( get_atts(X, colour(C)), C == red, get_atts(X, size(S)), S == 3 -> show(ok) ; show(lost) ).
"""


def replay_backtracking(viol):
    cases = [("t1", "ok"), ("t2", "2"), ("t3", "_-2"), ("t4", "ok"), ("t5", "ok"), ("t6", "ok"),
             ("t7", "unbound")] + [("t%d" % k, "ok") for k in range(8, 21)]
    # t3 prints an unbound variable name: normalise by checking only that it is unbound
    cases[2] = ("q3(R), ( R = V-2, var(V) -> show(ok) ; show(R) )", "ok")
    return run_cases(BT_PROGRAM, cases, {"model": viol}, "C11", "backtracking")


# ---------------------------------------------------------------- C06
IDX_PROGRAM = """
:- use_module(library(lists)).
edge(-36028797018963968, min). edge(36028797018963967, max). edge(-36028797018963967, next). edge(0, zero).
p2(1,a). p2(2,b). p2(_,c). p2(2,d). p2(3,e).
p(2). p(foo). p(7).
big(36028797018963968). big(bar).
:- dynamic(q/1).
show(X) :- write(X), nl.
"""


def replay_index_keys(which, model, prop="C06"):
    """fit: small integers that reach the call as bignum cells must still select their clause;
    big: integers outside the fixnum range built at run time must select the clause holding the
    same value as a literal"""
    if which == "fit":
        cases = [("Y is 2^60-2^60+2, ( p(Y) -> show(yes) ; show(no) )", "yes"),
                 ("Y is 2^70-2^70+7, findall(Y, p(Y), L), length(L, N), show(N)", "1"),
                 ("X is 2^60-2^60+2, assertz(q(X)), assertz(q(2)), findall(A, q(2), L1), "
                  "findall(A, q(X), L2), length(L1, N1), length(L2, N2), show(N1-N2)", "2-2"),
                 ("Y is 1 ^ (-1), retractall(q(_)), assertz(q(1)), ( q(Y) -> show(yes) ; show(no) )",
                  "yes"),
                 # a later indexed block must still be considered (clause look-ahead)
                 ("Y is 2^60-2^60+2, findall(T, p2(Y,T), L), show(L)", "[b,c,d]"),
                 # the fixnum boundaries as clause keys, called with the literal and with a computed value
                 ("findall(T, edge(-36028797018963968, T), L), show(L)", "[min]"),
                 ("Y is -(2^55), findall(T, edge(Y, T), L), show(L)", "[min]"),
                 ("findall(T, edge(36028797018963967, T), L), show(L)", "[max]"),
                 ("Y is 2^55 - 1, findall(T, edge(Y, T), L), show(L)", "[max]"),
                 ("Y is 2^80 - 2^80 - 2^55, findall(T, edge(Y, T), L), show(L)", "[min]"),
                 ("Y is -(2^55) + 1, findall(T, edge(Y, T), L), show(L)", "[next]")]
    else:
        cases = [("Z is 2^55, ( big(Z) -> show(yes) ; show(no) )", "yes")]
    return run_cases(IDX_PROGRAM, cases, {"model": model, "class": which}, prop,
                     "index_keys_" + which)


# ---------------------------------------------------------------- C05
EQI_PROGRAM = """
:- use_module(library(lists)).
show(X) :- write(X), nl.
lit2(2). lit7(7). litb(36028797018963968). litr(R) :- R is 1 rdiv 3.
yn(G) :- ( catch(G, _, fail) -> show(yes) ; show(no) ).
r(G, T, R) :- catch(( G -> R = yes(T) ; R = no ), error(E, _), R = err(E)).
showv(R) :- copy_term(R, C), term_variables(C, Vs), nv(Vs, 0), write_term(C, [numbervars(true), quoted(true)]), nl.
nv([], _).
nv(['$VAR'(N)|Vs], N) :- N1 is N + 1, nv(Vs, N1).
"""


def replay_equal_integers(viol):
    cases = [
        # small value held in a bignum cell vs literal fixnum, both directions of head unification
        ("Y is 2^60-2^60+2, yn(lit2(Y))", "yes"),
        ("Y is 2^60-2^60+2, yn(Y = 2)", "yes"),
        ("Y is 2^60-2^60+2, yn(2 = Y)", "yes"),
        ("Y is 2^60-2^60+3, yn(lit2(Y))", "no"),
        ("Y is 2^60-2^60+2, yn(Y == 2)", "yes"),
        ("Y is 2^60-2^60+2, compare(O, Y, 2), show(O)", "="),
        ("Y is 2^60-2^60+2, sort([3,Y,1,2], L), show(L)", "[1,2,3]"),
        # bignum vs bignum built separately
        ("Z is 2^55, yn(litb(Z))", "yes"),
        ("Z is 2^55, yn(Z = 36028797018963968)", "yes"),
        ("Z is 2^55 + 1, yn(litb(Z))", "no"),
        # integral rational vs integer, rational vs rational
        ("R is 4 rdiv 2, yn(R = 2)", "yes"),
        ("R is 2 rdiv 6, yn(litr(R))", "yes"),
        # an integer never unifies with a float
        ("yn(2 = 2.0)", "no"), ("Y is 2^60-2^60+2, yn(Y = 2.0)", "no"),
        ("Y is 2^60-2^60+2, length(L, Y), show(L)", "[_A,_B]"),
    ]
    cases[-1] = ("Y is 2^60-2^60+2, length(L, Y), length(L, N), show(N)", "2")
    cases += [("Z is 2^64 - 2^64, S is sign(Z), show(S)", "0"),
              ("Z is 2^64 - 2^64, E = sign(Z), S is E, show(S)", "0"),
              ("Z is 2^64 - 2^64 + 5, S is sign(Z), show(S)", "1"),
              ("Z is 2^64 - 2^64 - 5, S is sign(Z), show(S)", "-1"),
              ("Z is 0 rdiv 7, S is sign(Z), show(S)", "0"),
              ("Z is 2^64 - 2^64, S is abs(Z) + max(Z, 0) + min(Z, 0), show(S)", "0")]
    # builtins that take an integer argument: same outcome for the literal and for the same value
    # arriving in a bignum cell (differential: outcome = yes(Result) / no / err(E))
    templates = ["arg(N, f(a,b,c), T)", "functor(T, foo, N)", "length(T, N)", "length([a,b,c|_], N)",
                 "length([a|_], N)", "length([a,b], N)", "sub_atom(hello, N, 1, _, T)",
                 "nth0(N, [a,b,c], T)", "nth1(N, [a,b,c], T)", "number_codes(N, T)", "number_chars(N, T)",
                 "T is N + 1", "findall(X, between(0, N, X), T)", "succ(N, T)", "succ(T, N)",
                 "msort([3,N,1], T)", "compare(T, N, 2)", "copy_term(N, T)", "T = g(N), T == g(2)",
                 "atom_length(ab, N)", "N2 is N + 95, char_code(T, N2)", "N3 is N * 350, op(N3, xfx, =+=), "
                 "current_op(T, xfx, =+=)", "length(L, 3), N4 is N + 1, nth0(N4, L, z), T = L",
                 "T = \"abc\", N5 is N - 2, sub_atom(abc, N5, _, 0, _)", "atom_chars(T0, [a,b,c]), sub_atom(T0, _, N, 0, T)",
                 "number_vars_probe(N, T)"]
    templates = templates[:-1]
    for tpl in templates:
        for v in (2, 0, -1):
            cases.append(("N = %d, r((%s), T, R1), showv(R1)" % (v, tpl), None))
            cases.append(("N is 2^60-2^60+(%d), r((%s), T, R2), showv(R2)" % (v, tpl), None))
    rec = run_cases(EQI_PROGRAM, cases, {"model": viol}, "C05", "equal_integers", batch=True, pairs_from=21)
    return rec


# ---------------------------------------------------------------- C01 (bignum arms)
def replay_bignum_arms(viol):
    """exact integer arithmetic on operands around the fixnum / word boundaries, expected values
    from Python's big integers"""
    big = [2**55, -(2**55) - 1, 2**64, -(2**64), 2**70 + 3, 2**60 - 2**60 + 2]
    small = [7, -7, 2, -2, -(2**55), 2**55 - 1, 1, -1]
    ops = {"add": ("+", lambda a, b: a + b), "mul": ("*", lambda a, b: a * b),
           "idiv": ("//", lambda a, b: abs(a) // abs(b) * (1 if (a < 0) == (b < 0) else -1)),
           "remainder": ("rem", lambda a, b: a - b * (abs(a) // abs(b) * (1 if (a < 0) == (b < 0) else -1))),
           "modulus": ("mod", lambda a, b: a % b), "and": ("/\\", lambda a, b: a & b),
           "or": ("\\/", lambda a, b: a | b), "xor": ("xor", lambda a, b: a ^ b),
           "gcd": ("gcd", None)}
    import math
    cases = []
    kernels = {v["kernel"] for v in viol}
    for k in sorted(kernels):
        sym, f = ops.get(k, (None, None))
        if sym is None:
            continue
        pairs = [(a, b) for a in big for b in small] + [(a, b) for a in small for b in big] + \
                [(a, b) for a in big[:4] for b in big[:4]]
        if k == "modulus":
            pairs += [(2**64, -2), (2**55, -1), (0, -(2**64)), (-(2**64), 2**32), (2**64 + 1, -2)]
        for a, b in pairs:
            if b == 0:
                continue
            want = math.gcd(a, b) if k == "gcd" else f(a, b)
            # operands are built at run time so that small values travel in bignum cells too; every
            # representation pair of the arm table is exercised: (cell, cell), (fixnum, cell), (cell, fixnum)
            expr = "gcd(A,B)" if k == "gcd" else "A %s B" % sym
            fits = lambda v: -(2**55) <= v < 2**55
            forms = [("A is %d + 2^80 - 2^80, B is %d + 2^80 - 2^80" % (a, b))]
            if fits(a):
                forms.append("A = %d, B is %d + 2^80 - 2^80" % (a, b))
            if fits(b):
                forms.append("A is %d + 2^80 - 2^80, B = %d" % (a, b))
            for f_ in forms:
                cases.append(("%s, X is %s, write(X), nl" % (f_, expr), str(want)))
    return run_cases("", cases[:1200], {"model": viol}, "C01", "bignum_arms", batch=True)


IDX2_PROGRAM = """
:- use_module(library(lists)).
show(X) :- write(X), nl.
% one predicate with a first argument of every kind, so that switch_on_term is emitted
k(a, atom). k(1, int). k(2.5, float). k(36028797018963968, big).
k([x|_], list). k(f(_), struct). k(g(_,_), struct2). k([], nil). k('.', dotatom).
k("st", string).
"""


def replay_index_routing(diffs, prop="C06"):
    cases = [("findall(K, k(a, K), L), show(L)", "[atom]"),
             ("findall(K, k(1, K), L), show(L)", "[int]"),
             ("findall(K, k(2.5, K), L), show(L)", "[float]"),
             ("X is 5.0/2, findall(K, k(X, K), L), show(L)", "[float]"),
             ("findall(K, k(\"st\", K), L), show(L)", "[string]"),
             ("findall(K, k([x,y], K), L), show(L)", "[list]"),
             ("findall(K, k([s,t], K), L), show(L)", "[string]"),
             ("findall(K, k(f(1), K), L), show(L)", "[struct]"),
             ("findall(K, k(g(1,2), K), L), show(L)", "[struct2]"),
             ("findall(K, k([], K), L), show(L)", "[nil]"),
             ("findall(K, k('.', K), L), show(L)", "[dotatom]"),
             ("findall(K, k(h(1), K), L), show(L)", "[]"),
             ("findall(K, k(_, K), L), length(L, N), show(N)", "10")]
    return run_cases(IDX2_PROGRAM, cases, {"model": diffs}, prop, "index_routing")


# ---------------------------------------------------------------- C20 (suffix comparison)
def replay_string_suffix_compare(viol, prop="C20"):
    """suffixes of a string (unaligned starts) compared / unified with strings and with the
    lists they denote; expected orders computed on the Python strings"""
    base = "abcdefghijklmnopqrstuvwx"
    cases = []

    def order(a, b):
        return "<" if a < b else (">" if a > b else "=")
    for total in (10, 16, 17):
        s = base[:total]
        for k in (1, 3, 5, 7):
            suf = s[k:]
            skip = ",".join("_" for _ in range(k))
            for other in (suf + "k", suf, suf[:-1], suf[:-1] + "z"):
                cases.append(('X = "%s", X = [%s|T], compare(O, T, "%s"), write(O), nl' % (s, skip, other),
                              order(suf, other)))
                cases.append(('X = "%s", X = [%s|T], compare(O, "%s", T), write(O), nl' % (s, skip, other),
                              order(other, suf)))
            lst = "[" + ",".join(suf) + "]"
            cases.append(('X = "%s", X = [%s|T], ( T == %s -> write(yes) ; write(no) ), nl' % (s, skip, lst), "yes"))
    # first difference at characters of every encoded length (1..4 bytes), at several offsets
    chars = ["z", "\u00e9", "\u20ac", "\U0001F600", "\U0001F601", "a"]
    for pre in ("", "x", "xy", "xyzw", "xyzwvut"):
        for c1 in chars:
            for c2 in chars:
                a, b = pre + c1 + "q", pre + c2 + "q"
                cases.append(('compare(O, "%s", "%s"), write(O), nl' % (a, b), order(a, b)))
    return run_cases("", cases, {"model": viol}, prop, "string_suffix_compare", batch=True)


# ---------------------------------------------------------------- C04/C05 (Number comparison arms)
NUMCMP_PROGRAM = """
show(X) :- write(X), nl.
rels(X, Y, Rs) :- findall(R, rel(R, X, Y), Rs).
rel(lt, X, Y) :- X < Y.    rel(eq, X, Y) :- X =:= Y.   rel(gt, X, Y) :- X > Y.
rel(le, X, Y) :- X =< Y.   rel(ne, X, Y) :- X =\\= Y.  rel(ge, X, Y) :- X >= Y.
"""


def replay_number_comparisons(problems, prop="C04"):
    """exact comparison of integers / rationals of any size, comparison through doubles with
    floats; the six predicates must agree with each other. Expected sets from Python values."""
    from fractions import Fraction
    vals = [("5", Fraction(5)), ("-9223372036854775809", Fraction(-(2**63) - 1)),
            ("9223372036854775808", Fraction(2**63)), ("-36028797018963969", Fraction(-(2**55) - 1)),
            ("36028797018963968", Fraction(2**55)), ("-5", Fraction(-5)),
            ("18446744073709551617", Fraction(2**64 + 1)), ("(1 rdiv 3)", Fraction(1, 3)),
            ("(18446744073709551617 rdiv 2)", Fraction(2**64 + 1, 2)), ("0", Fraction(0))]
    floats = [("2.5", 2.5), ("18446744073709551616.0", float(2**64)), ("-1.0e30", -1.0e30),
              ("0.3333333333333333", 0.3333333333333333), ("36028797018963968.0", float(2**55))]

    def relset(c):
        return "[" + ",".join(r for r, ok in (("lt", c < 0), ("eq", c == 0), ("gt", c > 0), ("le", c <= 0),
                                              ("ne", c != 0), ("ge", c >= 0)) if ok) + "]"
    cases = []
    for ta, va in vals:
        for tb, vb in vals:
            c = (va > vb) - (va < vb)
            cases.append(("A is %s + 0, B is %s + 0, rels(A, B, Rs), show(Rs)" % (ta, tb), relset(c)))
        for tf, vf in floats:
            fa = float(va)          # the statement: convert the integer or rational to a double
            c = (fa > vf) - (fa < vf)
            cases.append(("A is %s + 0, B is %s, rels(A, B, Rs), show(Rs)" % (ta, tf), relset(c)))
            cases.append(("A is %s + 0, B is %s, rels(B, A, Rs), show(Rs)" % (ta, tf), relset(-c)))
    # rationals whose denominator / numerator is wider than a double's mantissa: the comparison with
    # the double float(R) (the correctly rounded conversion) must say equal, in both operand orders
    wide = ["((2^52 + 5) + ((2^61 - 1) // 4) rdiv (2^61 - 1))", "((2^61 - 1) rdiv (2^62 + 3))",
            "((2^120 + 12345) rdiv (2^59 + 1))", "(-(2^52 + 5) - ((2^61 - 1) // 4) rdiv (2^61 - 1))",
            "((3^50) rdiv (7^30))"]
    for w in wide:
        cases.append(("R is %s, F is float(R), rels(R, F, Rs), show(Rs)" % w, relset(0)))
        cases.append(("R is %s, F is float(R), rels(F, R, Rs), show(Rs)" % w, relset(0)))
        cases.append(("R is %s, F is float(R), G is F * 2, rels(R, G, R1), rels(G, R, R2), show(R1-R2)" % w, None))
    cases = [c for c in cases if c[1] is not None]
    # Number vs usize: functor/3 arity checks with integers held in bignum cells
    cases.append(("N is 2^60-2^60+2, functor(T, foo, N), show(T)", "foo(_A,_B)"))
    cases[-1] = ("N is 2^60-2^60+2, functor(T, foo, N), functor(T, F, A), show(F/A)", "foo/2")
    cases.append(("N is 2^60-2^60+0, functor(T, foo, N), show(T)", "foo"))
    return run_cases(NUMCMP_PROGRAM, cases, {"model": problems[:6]}, prop, "number_comparisons", batch=True)


# ---------------------------------------------------------------- C13 (ParallelHeapIter arms)
def replay_term_order(viol, prop="C13"):
    """two-element sequences in every representation (string, list, list with string tail,
    partial string) and compounds: compare/3 against the order computed on the abstract terms:
    heads before tails, arguments left to right, arity before name."""
    def order(a, b):
        return "<" if a < b else (">" if a > b else "=")
    seqs = ["ab", "ba", "ac", "bb", "aa"]
    # representations are built at run time (a source-level list of characters may be stored as a
    # string): string literal, explicit list cells (explode/2), list cell with a string tail
    reps = [lambda v, s: '%s = "%s"' % (v, s),
            lambda v, s: 'explode("%s", %s)' % (s, v),
            lambda v, s: 'H%s = %s, T%s = "%s", %s = [H%s|T%s]' % (v, s[0], v, s[1], v, v, v)]
    cases = []
    for x in seqs:
        for y in seqs:
            for i, rx in enumerate(reps):
                for j, ry in enumerate(reps):
                    cases.append(("%s, %s, compare(O, X, Y), write(O), nl" % (rx("X", x), ry("Y", y)),
                                  order(x, y)))
            # compounds: arguments left to right
            cases.append(("compare(O, f(%s,%s), f(%s,%s)), write(O), nl" % (x[0], x[1], y[0], y[1]),
                          order(x, y)))
            # partial strings with unbound tails: the heads decide when they differ
            if x[0] != y[0]:
                cases.append(('partial_string("%s", X, _), partial_string("%s", Y, _), compare(O, X, Y), '
                              'write(O), nl' % (x[0], y[0]), order(x[0], y[0])))
    # three-element sequences: longer tails
    for x, y in (("abc", "acb"), ("bca", "abz"), ("abc", "abd"), ("cab", "bzz")):
        for i, rx in enumerate(reps[:2]):
            for j, ry in enumerate(reps[:2]):
                cases.append(("%s, %s, compare(O, X, Y), write(O), nl" % (rx("X", x), ry("Y", y)), order(x, y)))
    # arity before name, then name; lists and strings are './2' compounds
    for a, b, w in (("f(a,b)", '"ab"', ">"), ('"ab"', "f(a,b)", "<"), ("a-b", '"ab"', "<"),
                    ('"ab"', "a-b", ">"), ("f(a,b)", "[a,b]", ">"), ("[a,b]", "a-b", ">"),
                    ("g(a)", '"ab"', "<"), ('"ab"', "z(a)", ">"), ("f(a,b,c)", '"zz"', ">"),
                    ("g(a)", "f(a,b)", "<"), ("f(a,b)", "g(a)", ">"), ("f(z,a)", "g(a,a)", "<"),
                    ("f(a,b,c)", "f(a,c,b)", "<"), ("f(b,a,a)", "f(a,z,z)", ">")):
        cases.append(("X = %s, Y = %s, compare(O, X, Y), write(O), nl" % (a, b), w))
    # variables: ordered by age (address), consistently in both directions and inside compounds
    cases += [("length(L, 3), L = [A,B,C], compare(O, A, B), write(O), nl", "<"),
              ("length(L, 3), L = [A,B,C], compare(O, C, A), write(O), nl", ">"),
              ("length(L, 3), L = [A,B,C], compare(O, B, B), write(O), nl", "="),
              ("length(L, 3), L = [A,B,C], compare(O, f(A,C), f(A,B)), write(O), nl", ">"),
              ("length(L, 3), L = [A,B,C], sort([C,A,B], S), ( S == [A,B,C] -> write(sorted) ; write(S) ), nl", "sorted"),
              ("length(L, 2), L = [A,B], compare(O1, A, B), compare(O2, B, A), write(O1), write(O2), nl", "<>"),
              ("compare(O, _, 1.0), write(O), nl", "<"), ("compare(O, 1.0, 1), write(O), nl", "<"),
              ("compare(O, 1, a), write(O), nl", "<"), ("compare(O, a, f(a)), write(O), nl", "<"),
              ("compare(O, f(a), _), write(O), nl", ">")]
    prog = (":- use_module(library(iso_ext)).\n:- use_module(library(lists)).\nexplode([], []).\nexplode([C|Cs], [C|Ds]) :- explode(Cs, Ds).\n")
    return run_cases(prog, cases, {"model": viol}, prop, "term_order", batch=True)


# ---------------------------------------------------------------- C13/C21 (atom order)
def replay_atom_order(viol, prop="C13"):
    """atoms of every storage class (inline 1..6 bytes, interned, predefined; ASCII and multi-byte)
    compared pairwise: the order must be the order of their code-point sequences (= UTF-8 bytes)"""
    atoms = ["a", "z", "é", "ézzzzzzzz", "zzzzzzzzz", "ab", "abc", "b", "aé", "€",
             "\U0001F600", "a€", "append", "zz", "é€", "abcdefg", "abcdef", "ÿ", "yÿ"]

    def order(a, b):
        a, b = a.encode("utf-8"), b.encode("utf-8")
        return "<" if a < b else (">" if a > b else "=")
    cases = []
    for x in atoms:
        for y in atoms:
            cases.append(("compare(O, '%s', '%s'), write(O), nl" % (x, y), order(x, y)))
    # the same through functor names and through run-time construction
    for x, y in (("é", "z"), ("z", "é"), ("aé", "az"), ("€", "ézzzzzzzz")):
        cases.append(("X = '%s'(1), Y = '%s'(1), compare(O, X, Y), write(O), nl" % (x, y), order(x, y)))
        cases.append(("atom_chars(X, \"%s\"), atom_concat('', '%s', Y), compare(O, X, Y), write(O), nl" % (x, y),
                      order(x, y)))
    return run_cases("", cases, {"model": viol}, prop, "atom_order", batch=True)


# ---------------------------------------------------------------- C21 (atom identity across creation paths)
def replay_atom_identity(viol):
    """texts around the inline limit, with NUL, multi-byte, equal to predefined atoms: created as
    literal, by atom_codes, atom_chars, atom_concat, sub_atom and char_code - identical iff equal text"""
    texts = ["a", "ab", "abcdef", "abcdefg", "abcdefgh", "append", "é", "aé€", "€€", "[]", "a b"]
    cases = []

    def q(t):
        return "'" + t.replace("\\", "\\\\").replace("'", "\\'") + "'"
    for t in texts:
        codes = "[" + ",".join(str(ord(c)) for c in t) + "]"
        cases.append(("atom_codes(A, %s), ( A == %s -> show(same) ; show(different) )" % (codes, q(t)), "same"))
        cases.append(("atom_codes(A, %s), atom_chars(%s, Cs), atom_chars(B, Cs), ( A == B -> show(same) ; "
                      "show(different) )" % (codes, q(t)), "same"))
        if len(t) > 1:
            cases.append(("atom_concat(%s, %s, A), ( A == %s -> show(same) ; show(different) )" % (
                q(t[:1]), q(t[1:]), q(t)), "same"))
            cases.append(("sub_atom(%s, 0, %d, _, A), ( A == %s -> show(same) ; show(different) )" % (
                q(t + "zz"), len(t), q(t)), "same"))
        cases.append(("atom_length(%s, L), show(L)" % q(t), str(len(t))))
    # NUL inside short texts: distinct texts are distinct atoms, and keep their length
    for a, b, la in (("a\\x0\\b", "a", 3), ("a\\x0\\b", "a\\x0\\c", 3), ("\\x0\\a", "", 2), ("ab\\x0\\", "ab", 3),
                     ("\\x0\\", "", 1)):
        cases.append(("( '%s' == '%s' -> show(same) ; show(different) )" % (a, b), "different"))
        cases.append(("atom_length('%s', L), show(L)" % a, str(la)))
        cases.append(("atom_codes('%s', Cs), atom_codes(A, Cs), ( A == '%s' -> show(same) ; show(different) )" % (a, a),
                      "same"))
    return run_cases("show(X) :- write(X), nl.\n", cases, {"model": viol}, "C21", "atom_identity", batch=True)


# ---------------------------------------------------------------- C30 (copy_term under exhaustion)
EXH_PROGRAM = """
:- use_module(library(lists)).
mk(0, []) :- !.
mk(N, [f(N,_)|T]) :- N1 is N-1, mk(N1, T).
chk([], 0) :- !.
chk([f(N,V)|T], N) :- var(V), N1 is N-1, chk(T, N1).
cp(T, Acc, K) :- copy_term(T, C), K1 is K+1, cp(T, [C|Acc], K1).
main :- mk(300000, T), chk(T, 300000),
        catch(cp(T, [], 0), error(resource_error(memory), _), true),
        ( chk(T, 300000) -> write(source_intact) ; write(source_corrupted) ), nl.
"""


def replay_copy_term_exhaustion(viol):
    """copy a large term repeatedly under an address-space limit until the heap cannot grow, catch
    the resource error, and inspect the source term (needs ~1 minute)"""
    import resource
    os.makedirs(os.path.join(REPLAY_DIR, "C30"), exist_ok=True)
    path = os.path.join(REPLAY_DIR, "C30", "copy_term_exhaustion.json")
    rec = {"engine": "prolog-exhaustion", "property": "C30", "program": EXH_PROGRAM, "model": viol,
           "path": path, "reproduced": False, "limit_kb": 400000}
    exe = build_binary()
    if not exe:
        rec["why"] = "building scryer-prolog from the working tree failed"
    else:
        os.makedirs(os.path.join(BIN_DIR, "tmp"), exist_ok=True)
        pl = os.path.join(BIN_DIR, "tmp", "exh_%d.pl" % os.getpid())
        with open(pl, "w") as f:
            f.write(EXH_PROGRAM)

        def lim():
            resource.setrlimit(resource.RLIMIT_AS, (rec["limit_kb"] * 1024, rec["limit_kb"] * 1024))
        env = dict(os.environ)
        env["MALLOC_ARENA_MAX"] = "1"
        try:
            p = subprocess.run([exe, "-f", "--no-add-history", pl, "-g", "main, halt"], capture_output=True,
                               text=True, timeout=900, stdin=subprocess.DEVNULL, preexec_fn=lim, env=env)
            out = p.stdout.strip().split("\n")[-1] if p.stdout.strip() else ""
            rec["output"], rec["returncode"], rec["stderr_tail"] = out, p.returncode, p.stderr[-300:]
            rec["reproduced"] = out != "source_intact"
            if not rec["reproduced"]:
                rec["why"] = "source term intact after the caught resource error"
        except subprocess.TimeoutExpired:
            rec["why"] = "timeout"
        finally:
            try:
                os.unlink(pl)
            except OSError:
                pass
    with open(path, "w") as f:
        json.dump(rec, f, indent=1)
    return rec


INSTR_EXH_PROGRAM = """
strs(Acc) :- S = "%s", strs([S|Acc]).
strc(Acc) :- S = f(Acc, g(1,2,3,4,5,6,7,8), h(Acc)), strc([S|Acc]).
main1 :- catch(strs([]), error(resource_error(memory), _), true), write(recovered), nl.
main2 :- catch(strc([]), error(resource_error(memory), _), true), write(recovered), nl.
""" % ("abcdefghij" * 100)


def _run_limited(exe, program, goal, limit_kb, timeout):
    import resource
    os.makedirs(os.path.join(BIN_DIR, "tmp"), exist_ok=True)
    pl = os.path.join(BIN_DIR, "tmp", "lim_%d.pl" % os.getpid())
    with open(pl, "w") as f:
        f.write(program)

    def lim():
        resource.setrlimit(resource.RLIMIT_AS, (limit_kb * 1024, limit_kb * 1024))
    env = dict(os.environ)
    env["MALLOC_ARENA_MAX"] = "1"
    try:
        p = subprocess.run([exe, "-f", "--no-add-history", pl, "-g", goal], capture_output=True, text=True,
                           timeout=timeout, stdin=subprocess.DEVNULL, preexec_fn=lim, env=env)
        out = p.stdout.strip().split("\n")[-1] if p.stdout.strip() else ""
        return out, p.returncode, p.stderr[-300:]
    except subprocess.TimeoutExpired:
        return "<timeout %ds>" % timeout, -9, ""
    finally:
        try:
            os.unlink(pl)
        except OSError:
            pass


def replay_instruction_exhaustion(viol):
    """a clause body that allocates (string literal / structures) in a loop under an address-space
    limit: the resource error raised inside the put_* instruction must reach catch/3"""
    os.makedirs(os.path.join(REPLAY_DIR, "C30"), exist_ok=True)
    path = os.path.join(REPLAY_DIR, "C30", "instruction_exhaustion.json")
    rec = {"engine": "prolog-exhaustion", "property": "C30", "program": INSTR_EXH_PROGRAM, "model": viol,
           "path": path, "reproduced": False, "limit_kb": 400000, "runs": []}
    exe = build_binary()
    if not exe:
        rec["why"] = "building scryer-prolog from the working tree failed"
    else:
        for goal in ("main1, halt", "main2, halt"):
            out, rc, err = _run_limited(exe, INSTR_EXH_PROGRAM, goal, rec["limit_kb"], 240)
            rec["runs"].append({"goal": goal, "output": out, "returncode": rc, "stderr_tail": err})
            if out != "recovered":
                rec["reproduced"] = True
        if not rec["reproduced"]:
            rec["why"] = "both goals recovered after the caught resource error"
    with open(path, "w") as f:
        json.dump(rec, f, indent=1)
    return rec


# ---------------------------------------------------------------- C06/C09 (clause order in index buckets)
ORD_PROGRAM = """
:- use_module(library(lists)).
:- dynamic(d/2).
show(X) :- write(X), nl.
% clauses whose first arguments share one index key, added in the order z1 a2 z3 a4 z5 (z = assertz,
% a = asserta): database order is 4 2 1 3 5
fill(K) :- retractall(d(_,_)), copy_term(K, K1), assertz(d(K1,1)), copy_term(K, K2), asserta(d(K2,2)),
           copy_term(K, K3), assertz(d(K3,3)), copy_term(K, K4), asserta(d(K4,4)), copy_term(K, K5), assertz(d(K5,5)).
% the same with clauses of other kinds in between (several index lines, a variable clause)
mixed(K) :- retractall(d(_,_)), assertz(d(other, 10)), copy_term(K, K1), assertz(d(K1,1)), assertz(d(g(1), 11)),
            copy_term(K, K2), asserta(d(K2,2)), assertz(d([q], 12)), copy_term(K, K3), assertz(d(K3,3)),
            copy_term(K, K4), asserta(d(K4,4)), assertz(d(7, 13)).
"""


def replay_clause_order(viol, prop="C06"):
    keys = ["a", "7", "f(_)", "f(x)", "[x|_]", "[_|_]", "\"st\"", "[]", "2.5"]
    cases = []
    for k in keys:
        cases.append(("fill(%s), findall(N, d(%s, N), L), show(L)" % (k, k), "[4,2,1,3,5]"))
        cases.append(("fill(%s), findall(N, d(_, N), L), show(L)" % k, "[4,2,1,3,5]"))
        cases.append(("mixed(%s), findall(N, (d(%s, N), N < 10), L), show(L)" % (k, k), "[4,2,1,3]"))
        cases.append(("mixed(%s), findall(N, (d(_, N), N < 10), L), show(L)" % k, "[4,2,1,3]"))
    # one constant-keyed clause in the first block, a later block after a variable clause, then
    # asserta / assertz of a clause with another key: every bound call still finds its clauses
    for k1, k2, k0 in (("1", "2", "0"), ("a", "b", "c"), ("f(_)", "g(_)", "h(_)")):
        for how, want_all in (("asserta", "[z,p,q,r]"), ("assertz", "[p,q,r,z]")):
            setup = ("retractall(d(_,_)), assertz(d(%s,p)), assertz(d(_,q)), assertz(d(%s,r)), %s(d(%s,z))" % (
                k1, k2, how, k0))
            cases.append(("%s, findall(T, d(_, T), L), show(L)" % setup, want_all))
            cases.append(("%s, findall(T, d(%s, T), L), show(L)" % (setup, k1), "[p,q]"))
            cases.append(("%s, findall(T, d(%s, T), L), show(L)" % (setup, k2), "[q,r]"))
            cases.append(("%s, findall(T, d(%s, T), L), show(L)" % (setup, k0),
                          "[z,q]" if how == "asserta" else "[q,z]"))
    return run_cases(ORD_PROGRAM, cases, {"model": viol}, prop, "clause_order", batch=True)


# ---------------------------------------------------------------- C55 (hex escapes)
def replay_hex_escapes(viol):
    """white space / control characters without a symbolic escape are written as \\xH..H\\ with the
    whole code point, and the output reads back as the same atom"""
    cps = [0x01, 0x1f, 0x7f, 0x85, 0xa0, 0x1680, 0x2000, 0x2028, 0x2029, 0x205f, 0x3000]
    cases = []
    for cp in cps:
        cases.append(("atom_codes(A, [0'a, %d, 0'b]), writeq(A), nl" % cp, "'a\\x%x\\b'" % cp))
        cases.append(("atom_codes(A, [%d]), writeq(f(A)), nl" % cp, "f('\\x%x\\')" % cp))
    return run_cases("", cases, {"model": viol}, "C55", "hex_escapes", batch=True)


def replay_canonical(viol):
    """write_canonical: no operator notation, no list/curly sugar beyond the standard, quoted"""
    cases = [("X is 1 rdiv 3, write_canonical(X), nl", "rdiv(1,3)"),
             ("X is -7 rdiv 2, write_canonical(f(X)), nl", "f(rdiv(-7,2))"),
             ("write_canonical(1+2*3), nl", "+(1,*(2,3))"),
             ("write_canonical(- (1)), nl", "-(1)"),
             ("write_canonical((a:-b)), nl", ":-(a,b)"),
             ("write_canonical(f(x,-)), nl", "f(x,-)"),
             ("write_canonical({a}), nl", "{}(a)"),
             ("write_canonical('A b'), nl", "'A b'"),
             ("X is 4 rdiv 2, write_canonical(X), nl", "2"),
             ("X is 1 rdiv 3, writeq(X), nl", "1 rdiv 3"),
             ("X is 1 rdiv 3, write_term(X, [ignore_ops(true)]), nl", "rdiv(1,3)")]
    return run_cases("", cases, {"model": viol}, "C55", "canonical", batch=True)


# ---------------------------------------------------------------- C10 (unification steps)
UNI_PROGRAM = """
:- use_module(library(lists)).
:- use_module(library(iso_ext)).
:- use_module(library(atts)).
:- use_module(library(dif)).
:- use_module(library(freeze)).
show(X) :- write(X), nl.
u(A, B, R) :- ( A = B -> R = yes(A) ; R = no ).
showv(R) :- copy_term(R, C), term_variables(C, Vs), nv(Vs, 0), write_term(C, [numbervars(true), quoted(true)]), nl.
nv([], _).
nv(['$VAR'(N)|Vs], N) :- N1 is N + 1, nv(Vs, N1).
explode([], []).
explode([C|Cs], [C|Ds]) :- explode(Cs, Ds).
% head unification that builds a structure in write mode around a variable seen earlier in the head
hp(X, f(X)).
hq(X, g(a, [X|_])).
oc(V, G, R) :- set_prolog_flag(occurs_check, V),
    catch(( G, set_prolog_flag(occurs_check, false), R = unified ; set_prolog_flag(occurs_check, false), R = no ),
          error(E, _), ( set_prolog_flag(occurs_check, false), R = err(E) )).
"""


def replay_unification(viol):
    """pairs of terms of every kind of cell, both orders: outcome (unified term or no) against the
    outcome written down from the definition of syntactic unification"""
    pairs = [
        ("a", "a", "yes(a)"), ("a", "b", "no"), ("a", "f(a)", "no"), ("f(X)", "f(a)", "yes(f(a))"),
        ("f(X,b)", "f(a,Y)", "yes(f(a,b))"), ("f(a,b)", "f(a)", "no"), ("f(a,b)", "g(a,b)", "no"),
        ("f(a,b,c)", "f(a,b,d)", "no"), ("f(X,Y,Z)", "f(1,2,3)", "yes(f(1,2,3))"),
        ("f(X,X)", "f(a,b)", "no"), ("f(X,X)", "f(Y,c)", "yes(f(c,c))"),
        ("[a,b]", "[a,b]", "yes([a,b])"), ("[a,b]", "[a,c]", "no"), ("[a|T]", "[a,b,c]", "yes([a,b,c])"),
        ("[H|T]", "[]", "no"), ("[]", "[]", "yes([])"), ("[]", "nil", "no"),
        ("\"ab\"", "[a,b]", "yes(\"ab\")"), ("\"ab\"", "[a,c]", "no"), ("\"abc\"", "[a|T]", "yes(\"abc\")"),
        ("\"ab\"", "\"ab\"", "yes(\"ab\")"), ("\"ab\"", "\"abc\"", "no"), ("\"ab\"", "f(a,b)", "no"),
        ("[a|\"b\"]", "\"ab\"", "yes(\"ab\")"), ("\"ab\"", "ab", "no"),
        ("1", "1", "yes(1)"), ("1", "2", "no"), ("1", "1.0", "no"), ("1.5", "1.5", "yes(1.5)"),
        ("1.5", "2.5", "no"), ("a", "1", "no"), ("f(1.5)", "f(1.5)", "yes(f(1.5))"),
        ("X", "f(Y)", "yes(f(A))"), ("f(A,B,A)", "f(B,C,d)", "yes(f(d,d,d))"),
        ("g(f(X),[X|T])", "g(f(1),[Y,2])", "yes(g(f(1),[1,2]))"),
        ("'\\x1\\'", "a", "no"), ("f", "f()", None),
    ]
    cases = []
    for a, b, want in pairs:
        if want is None:
            continue
        w = want.replace("\"ab\"", "[a,b]").replace("\"abc\"", "[a,b,c]")
        cases.append(("u(%s, %s, R), showv(R)" % (a, b), w.replace("yes(f(A))", "yes(f(A))")))
        cases.append(("u(%s, %s, R), showv(R)" % (b, a), None))
    # outcome must not depend on the order of the two terms (second member of each pair)
    fixed = []
    for k in range(0, len(cases), 2):
        fixed.append(cases[k])
        g = cases[k + 1][0]
        want = cases[k][1]
        fixed.append((g, ("yes(%s)" % g[g.index("u(") + 2:].split(", ")[0]) if False else want))
    cases = fixed
    # strings built at run time against explicit list cells, attributed variables, stack variables
    cases += [
        ("explode(\"ab\", L), u(L, \"ab\", R), showv(R)", "yes([a,b])"),
        ("explode(\"ab\", L), u(\"ab\", L, R), showv(R)", "yes([a,b])"),
        ("explode(\"ab\", L), u(L, \"ac\", R), showv(R)", "no"),
        ("dif(X, a), ( X = a -> show(unified) ; show(no) )", "no"),
        ("dif(X, a), ( X = b -> show(yes(X)) ; show(no) )", "yes(b)"),
        ("dif(X, a), ( f(X) = f(Y), Y = a -> show(unified) ; show(no) )", "no"),
        ("freeze(X, show(woke)), X = 1", "woke"),
        ("freeze(X, true), Y = X, ( Y == X -> show(same) ; show(different) )", "same"),
        ("put_atts_probe", None),
        # the same pair of sub-terms met twice in one unification, with work left afterwards
        ("S = g(_), T = g(_), u(f(S,S,a), f(T,T,b), R), showv(R)", "no"),
        ("S = g(_), T = g(_), u(f(S,S,X), f(T,T,1), R), showv(R)", "yes(f(g(A),g(A),1))"),
        ("S = [_], T = [_], u(f(S,S,a), f(T,T,b), R), showv(R)", "no"),
        # occurs check with a string on the other side
        ("partial_string(\"abc\", Ls, T), ( unify_with_occurs_check(T, Ls) -> show(unified) ; show(no) )", "no"),
        ("partial_string(\"abc\", Ls, T), ( unify_with_occurs_check(Ls, T) -> show(unified) ; show(no) )", "no"),
        ("( unify_with_occurs_check(X, f(X)) -> show(unified) ; show(no) )", "no"),
        ("( unify_with_occurs_check(f(X), f(a)) -> show(yes(X)) ; show(no) )", "yes(a)"),
        # the occurs_check flag applies to head unification as well
        ("oc(true, hp(A, A), R), show(R)", "no"), ("oc(true, hq(A, A), R), show(R)", "no"),
        ("oc(error, hp(A, A), R), show(R)", "err(representation_error(term))"),
        ("oc(error, hq(A, A), R), show(R)", "err(representation_error(term))"),
        ("oc(true, (hp(A, B), B == f(A)), R), show(R)", "unified"), ("oc(true, (hp(A, B), A = B), R), show(R)", "no"),
        ("oc(true, A = f(A), R), show(R)", "no"), ("oc(false, hp(A, A), R), show(R)", "unified"),
        ("( unify_with_occurs_check(T, [a,b,c|T]) -> show(unified) ; show(no) )", "no"),
        ("( unify_with_occurs_check(T, g([a,b|T])) -> show(unified) ; show(no) )", "no"),
        # strings with multi-byte characters against explicit list cells
        ("explode(\"a\u00f1b\", L), u(\"a\u00f1b\", L, R), ( R = yes(_) -> show(yes) ; show(no) )", "yes"),
        ("L = [X,Y,Z], \"a\u00f1b\" = L, atom_codes(Y, [C]), show(C)", "241"),
        ("L = [X,Y,Z], \"a\u00f1b\" = L, show(Z)", "b"),
    ]
    cases = [c for c in cases if c[1] is not None]
    return run_cases(UNI_PROGRAM, cases, {"model": viol}, "C10", "unification", batch=True)


# ---------------------------------------------------------------- C14 (sort/2, keysort/2)
def replay_sorting(viol):
    """sort/2: strictly ascending in the standard order, duplicates removed; keysort/2: stable on keys.
    Expected lists written from the definition."""
    cases = [
        ("sort([c,a,b,a,c], L), show(L)", "[a,b,c]"),
        ("sort([3,1,2,1,3,2], L), show(L)", "[1,2,3]"),
        ("sort([b,1,a,2.0,f(x),\"s\",Z,[]], L), length(L, N), show(N)", "8"),
        ("sort([f(b),f(a),g(a),f(a,a),a,1,1.0], L), show(L)", "[1.0,1,a,f(a),f(b),g(a),f(a,a)]"),
        ("sort([z,y,x,w,v,u,t,s,r,q,p,o,n,m,l,k,j,i,h,g,f,e,d,c,b,a], L), show(L)",
         "[a,b,c,d,e,f,g,h,i,j,k,l,m,n,o,p,q,r,s,t,u,v,w,x,y,z]"),
        ("sort([1,1,1,1], L), show(L)", "[1]"), ("sort([], L), show(L)", "[]"),
        ("X is 2^60-2^60+2, sort([3,X,2,1], L), show(L)", "[1,2,3]"),
        ("sort([f(X,1),f(X,0)], L), L = [f(_,A),f(_,B)], show(A-B)", "0-1"),
        ("keysort([b-1,a-2,b-3,a-4,c-0,a-6], L), show(L)", "[a-2,a-4,a-6,b-1,b-3,c-0]"),
        ("keysort([2-x,1-y,2-z,1-w,2-v,1-u,2-t,1-s,2-r,1-q,2-p,1-o,2-n,1-m,2-l,1-k,2-j,1-i,2-h,1-g,2-f,1-e,2-d,1-c,2-b,1-a], L), show(L)",
         "[1-y,1-w,1-u,1-s,1-q,1-o,1-m,1-k,1-i,1-g,1-e,1-c,1-a,2-x,2-z,2-v,2-t,2-r,2-p,2-n,2-l,2-j,2-h,2-f,2-d,2-b]"),
        ("keysort([k-b,k-a,k-b,k-a], L), show(L)", "[k-b,k-a,k-b,k-a]"),
        ("keysort([f(2)-a,f(1)-b,1.0-c,z-d], L), show(L)", "[1.0-c,z-d,f(1)-b,f(2)-a]"),
        ("keysort([], L), show(L)", "[]"),
        # list literals whose leading one-character atoms are stored as a string (F12)
        ("sort([c,1], L), show(L)", "[1,c]"), ("sort([a,1,1.0], L), show(L)", "[1.0,1,a]"),
        ("sort([c,f(1)], L), show(L)", "[c,f(1)]"), ("sort([c,d|[1]], L), show(L)", "[1,c,d]"),
        ("sort([b,a|\"dc\"], L), show(L)", "[a,b,c,d]"),
        ("catch(sort([c,d|foo], L), error(E, _), true), show(E)", "type_error(list,[c,d|foo])"),
        ("catch(sort([c,d|_], L), error(E, _), true), show(E)", "instantiation_error"),
        ("keysort([a-1], L), show(L)", "[a-1]"),
        # equal numbers in separately allocated cells are duplicates; non-ASCII strings keep their characters
        ("X is 2^80, Y is 2^80, sort([X,7,Y], L), show(L)", "[7,1208925819614629174706176]"),
        ("X is 1 rdiv 3, Y is 2 rdiv 6, sort([X,Y,X], L), length(L, N), show(N)", "1"),
        ("X is 2^80, Y is 2^80, sort([f(X),f(Y)], L), length(L, N), show(N)", "1"),
        ("sort(\"z\u00e9a\", L), show(L)", "[a,z,\u00e9]"),
        ("atom_codes(A, [0'b, 0x20AC, 0'a]), atom_chars(A, Cs), sort(Cs, L), length(L, N), show(N)", "3"),
        ("numlist(1, 60, Ns), findall(K-N, (member(N, Ns), K is N mod 3), Ps), keysort(Ps, L), "
         "findall(N, member(0-N, L), Zs), ( msort_check(Zs) -> show(stable) ; show(Zs) )", "stable"),
    ]
    prog = (":- use_module(library(lists)).\n:- use_module(library(between)).\nshow(X) :- write(X), nl.\n"
            "msort_check([]).\nmsort_check([_]).\nmsort_check([A,B|T]) :- A < B, msort_check([B|T]).\n")
    return run_cases(prog, cases, {"model": viol}, "C14", "sorting", batch=True)


# ---------------------------------------------------------------- C23 (arg/3)
def replay_arg(viol):
    cases = []
    prog = (":- use_module(library(lists)).\n"
            "show(X) :- write(X), nl.\n"
            "r(G, T, R) :- catch(( G -> R = yes(T) ; R = no ), error(E, _), R = err(E)).\n")
    term = "f(a,b,c)"
    for n, want in ((0, "no"), (1, "yes(a)"), (2, "yes(b)"), (3, "yes(c)"), (4, "no"), (-1, "err(domain_error(not_less_than_zero,-1))")):
        cases.append(("r(arg(%d, %s, T), T, R), show(R)" % (n, term), want))
        cases.append(("N is 2^60-2^60+(%d), r(arg(N, %s, T), T, R), show(R)" % (n, term), want))
    for n, want in ((0, "no"), (1, "yes(x)"), (2, "yes([y])"), (3, "no")):
        cases.append(("L = [x,y], r(arg(%d, L, T), T, R), show(R)" % n, want))
        cases.append(("N is 2^60-2^60+(%d), L = [x,y], r(arg(N, L, T), T, R), show(R)" % n, want))
    cases += [("r(arg(_, f(a), T), T, R), show(R)", "err(instantiation_error)"),
              ("r(arg(1, _, T), T, R), show(R)", "err(instantiation_error)"),
              ("r(arg(1, foo, T), T, R), show(R)", "err(type_error(compound,foo))"),
              ("r(arg(1, 3, T), T, R), show(R)", "err(type_error(compound,3))"),
              ("r(arg(a, f(a), T), T, R), show(R)", "err(type_error(integer,a))"),
              ("r(arg(1.0, f(a), T), T, R), show(R)", "err(type_error(integer,1.0))"),
              ("N is 2^70, r(arg(N, f(a), T), T, R), show(R)", "no"),
              ("r(arg(2, f(a,b), b), x, R), show(R)", "yes(x)"),
              ("r(arg(2, f(a,b), c), x, R), show(R)", "no"),
              ("functor(T0, g, 255), r((arg(255, T0, last), arg(255, T0, V)), V, R), show(R)", "yes(last)"),
              ("r(arg(1, \"ab\", T), T, R), show(R)", "yes(a)"),
              ("r(arg(2, \"ab\", T), T, R), show(R)", "yes([b])")]
    # functor/3: inspection of every kind of term, construction, errors
    for t, w in (("foo", "yes(foo/0)"), ("42", "yes(42/0)"), ("2.5", "yes(2.5/0)"), ("f(a,b,c)", "yes(f/3)"),
                 ("[a,b]", "yes('.'/2)"), ("\"ab\"", "yes('.'/2)"), ("[]", "yes([]/0)"), ("g(_)", "yes(g/1)")):
        cases.append(("r(functor(%s, N, A), N/A, R), showq(R)" % t, w))
    cases += [("B is 2^70, r(functor(B, N, A), A, R), showq(R)", "yes(0)"),
              ("r(functor(T, foo, 3), T, R), showv(R)", "yes(foo(A,B,C))"),
              ("r(functor(T, foo, 0), T, R), showq(R)", "yes(foo)"),
              ("r(functor(T, 7, 0), T, R), showq(R)", "yes(7)"),
              ("r(functor(T, '.', 2), T, R), showv(R)", "yes([A|B])"),
              ("N is 2^60-2^60+2, r(functor(T, foo, N), T, R), showv(R)", "yes(foo(A,B))"),
              ("r(functor(_, _, 3), x, R), showq(R)", "err(instantiation_error)"),
              ("r(functor(_, foo, _), x, R), showq(R)", "err(instantiation_error)"),
              ("r(functor(_, foo, a), x, R), showq(R)", "err(type_error(integer,a))"),
              ("r(functor(_, foo, 1.5), x, R), showq(R)", "err(type_error(integer,1.5))"),
              ("r(functor(_, foo, -1), x, R), showq(R)", "err(domain_error(not_less_than_zero,-1))"),
              ("r(functor(_, foo, 100000), x, R), showq(R)", "err(representation_error(max_arity))"),
              ("r(functor(_, foo(a), 1), x, R), showq(R)", "err(type_error(atomic,foo(a)))"),
              ("r(functor(_, 7, 1), x, R), showq(R)", "err(type_error(atom,7))"),
              ("r(functor(f(a), g, 1), x, R), showq(R)", "no"), ("r(functor(f(a), f, 2), x, R), showq(R)", "no"),
              ("r(functor(f(a), f, 1), x, R), showq(R)", "yes(x)")]
    # strings: the first character and the rest, also when the first character is multi-byte or the last
    cases += [("r(arg(1, \"\u00e9b\", T), T, R), showq(R)", "yes(\u00e9)"),
              ("r(arg(2, \"\u00e9b\", T), T, R), showq(R)", "yes([b])"),
              ("r(arg(2, \"\u00e9\", T), T, R), showq(R)", "yes([])"),
              ("r(arg(2, \"\u20acxy\", T), T, R), showq(R)", "yes([x,y])"),
              ("r(arg(2, \"a\U0001F600\", T), T, R), showq(R)", "yes(['\U0001F600'])"),
              ("r(arg(0, \"ab\", T), T, R), showq(R)", "no"), ("r(arg(3, \"ab\", T), T, R), showq(R)", "no"),
              ("N is 2^60-2^60+2, r(arg(N, \"\u00e9b\", T), T, R), showq(R)", "yes([b])"),
              ("N is 2^60-2^60+1, r(arg(N, \"\u00e9b\", T), T, R), showq(R)", "yes(\u00e9)"),
              ("N is 2^60-2^60+3, r(arg(N, \"ab\", T), T, R), showq(R)", "no"),
              ("r(arg(2, \"abcdefgh\", \"bcdefgh\"), x, R), showq(R)", "yes(x)"),
              ("r(arg(2, \"abcdefgh\", \"bcdefgx\"), x, R), showq(R)", "no"),
              ("r(arg(1, \"abc\", b), x, R), showq(R)", "no"),
              ("r((S = \"abcdefg\", arg(2, S, T1), arg(2, T1, T2), arg(2, T2, T)), T, R), showq(R)", "yes([d,e,f,g])")]
    # a multi-byte LAST character at every offset of its 8-byte cell (the rest is what follows the string)
    for pre in ("", "a", "ab", "abc", "abcd", "abcde", "abcdef", "abcdefg", "abcdefgh"):
        for ch in ("\u00e9", "\u20ac", "\U0001F600"):
            cases.append(("S = \"%s%s\", r(walk(S, L), L, R), showq(R)" % (pre, ch), "yes(%d)" % (len(pre) + 1)))
    cases += [("r(functor(_, 1, 2), x, R), showq(R)", "err(type_error(atom,1))"),
              ("r(functor(_, 1.5, 1), x, R), showq(R)", "err(type_error(atom,1.5))"),
              ("B is 2^70, r(functor(_, B, 3), x, R), showq(R)", "err(type_error(atom,1180591620717411303424))"),
              ("B is 2^70, r(functor(T, B, 0), T, R), showq(R)", "yes(1180591620717411303424)"),
              ("N is 2^60-2^60+1, r(functor(_, 7, N), x, R), showq(R)", "err(type_error(atom,7))"),
              ("r(functor(_, \"ab\", 1), x, R), showq(R)", "err(type_error(atomic,[a,b]))"),
              ("r(functor(_, [a], 0), x, R), showq(R)", "err(type_error(atomic,[a]))")]
    prog += ("walk(S, L) :- walk(S, 0, L).\n"
             "walk(S, N0, L) :- arg(2, S, T), N1 is N0 + 1, ( T == [] -> L = N1 ; N1 < 40, T = [_|_], walk(T, N1, L) ).\n")
    # the block functor/3 fabricates: distinct unbound arguments, at the boundary arities, usable afterwards
    cases += [("r(functor(T, foo, 1), T, R), showv(R)", "yes(foo(A))"),
              ("r(functor(T, '.', 3), T, R), showv(R)", "yes('.'(A,B,C))"),
              ("r(functor(T, '.', 1), T, R), showv(R)", "yes('.'(A))"),
              ("r(functor(T, '.', 0), T, R), showq(R)", "yes('.')"),
              ("r(functor(T, [], 0), T, R), showq(R)", "yes([])"),
              ("r((functor(T, f, 3), arg(1, T, a), arg(3, T, c)), T, R), showv(R)", "yes(f(a,A,c))"),
              ("r((functor(T, f, 3), X = bar(1,2), T = f(P,_,_), P = X), T-X, R), showv(R)", "yes(f(bar(1,2),A,B)-bar(1,2))"),
              ("r((functor(T, '.', 2), X = g(z), T = [H|Tl], Tl = [], H = X), T-X, R), showv(R)", "yes([g(z)]-g(z))"),
              ("r((functor(T, h, 2), T = h(A, B), A = 1, var(B)), T, R), showv(R)", "yes(h(1,A))"),
              ("r((functor(T, g, 255), T =.. [_|As], length(As, L), arg(255, T, e), arg(254, T, V254), var(V254), arg(1, T, V1), var(V1)), L, R), showq(R)", "yes(255)"),
              ("r((functor(T, g, 255), term_variables(T, Vs), length(Vs, L)), L, R), showq(R)", "yes(255)"),
              ("r(functor(_, foo, 256), x, R), showq(R)", "err(representation_error(max_arity))"),
              ("N is 2^60-2^60+256, r(functor(_, foo, N), x, R), showq(R)", "err(representation_error(max_arity))"),
              ("N is 2^70, r(functor(_, foo, N), x, R), showq(R)", "err(representation_error(max_arity))"),
              ("N is -(2^70), r(functor(_, foo, N), x, R), showq(R)", "err(domain_error(not_less_than_zero,-1180591620717411303424))"),
              ("r((functor(T, p, 2), functor(U, p, 2), T = p(a, _), U = p(_, b), T = U), T, R), showq(R)", "yes(p(a,b))"),
              ("r((functor(T, p, 2), copy_term(T, U), T = p(a, a), U = p(X, Y), var(X), var(Y), X \\== Y), x, R), showq(R)", "yes(x)")]
    prog += ("showq(X) :- writeq(X), nl.\n"
             "showv(R) :- copy_term(R, C), term_variables(C, Vs), nv(Vs, 0), write_term(C, [numbervars(true), quoted(true)]), nl.\n"
             "nv([], _).\nnv(['$VAR'(N)|Vs], N) :- N1 is N + 1, nv(Vs, N1).\n")
    return run_cases(prog, cases, {"model": viol}, "C23", "arg", batch=True)


# ---------------------------------------------------------------- C20 (copying strings that share storage)
def replay_string_copy(viol):
    """a term that mentions a string and suffixes of it (which share its storage), in every order, is
    copied by copy_term/2 and findall/3; the copy must be identical to the original and to the same term
    written with explicit list cells"""
    prog = """
:- use_module(library(lists)).
show(X) :- write(X), nl.
explode([], []).
explode([C|Cs], [C|Ds]) :- explode(Cs, Ds).
skip(0, S, S).
skip(N, [_|S0], S) :- N > 0, N1 is N-1, skip(N1, S0, S).
ck(T) :- T =.. [F|As], maplist(explode, As, Ls), R =.. [F|Ls], copy_term(T, C1), findall(T, true, [C2]),
         ( C1 == T, C1 == R, C2 == T, C2 == R -> show(same) ; show(differs) ).
"""
    subjects = ["abcdefghijklmnopqrstuvwxyz0123456789", "äöü€\U0001F600abcdefghijklmnopqrstuvwxyz"]
    cases = []
    for s in subjects:
        for n1, n2 in ((1, 2), (3, 9), (9, 18), (10, 27), (8, 16)):
            for shape in ("f(S,A,B)", "f(A,S,B)", "f(A,B,S)", "f(B,A,S)", "g(A,S)", "g(B,B)"):
                cases.append(("S = \"%s\", skip(%d, S, A), skip(%d, S, B), ck(%s)" % (s, n1, n2, shape), "same"))
    return run_cases(prog, cases, {"model": viol}, "C20", "string_copy", batch=True)


# ---------------------------------------------------------------- C21 (interned atoms across table growth)
def replay_atom_table_growth(viol):
    """intern a long atom, then ~280 KiB of other long atoms (the table outgrows its first block), then
    build the first text again by several paths: it must be the very same atom"""
    prog = """
:- use_module(library(lists)).
:- use_module(library(between)).
:- use_module(library(iso_ext)).
show(X) :- write(X), nl.
early_long_predicate_name(ok).
filler(I) :- number_chars(I, Cs), append("filler_atom_with_a_rather_long_text_to_fill_the_table_", Cs, T), atom_chars(_, T).
same(A, B) :- A == B, A = B, compare(=, A, B).
grow :- forall(between(1, 4000, I), filler(I)).
t1 :- E = early_long_atom_text, atom_codes(E, Cs), grow, atom_codes(E2, Cs), ( same(E, E2) -> show(same) ; show(different) ).
t2 :- E = another_early_long_atom, atom_chars(E, Cs), grow, atom_chars(E2, Cs), atom_concat(another_early_, long_atom, E3),
      ( same(E, E2), same(E, E3) -> show(same) ; show(different) ).
t3 :- grow, atom_chars(P, "early_long_predicate_name"), G =.. [P, R], ( catch(G, _, fail), R == ok -> show(called) ; show(lost) ).
"""
    cases = [("t1", "same"), ("t2", "same"), ("t3", "called")]
    return run_cases(prog, cases, {"model": viol}, "C21", "atom_table_growth")


# ---------------------------------------------------------------- C06 (clause look-ahead)
def replay_lookahead(viol, prop="C06"):
    """predicates whose later clauses have list / string / structure / constant first arguments, called
    with the argument in every run-time representation: all matching clauses must be found"""
    prog = """
:- use_module(library(lists)).
show(X) :- write(X), nl.
s("abc",1). s("abd",2). s(foo,3). s("abd",4). s([a,b,d],5).
u(_,0). u("abd",1). u([x|_],2). u(f(_),3). u(g(1),4). u(7,5).
col(a,1,red). col(b,2,green). col(c,2,blue). col(d,36028797018963967,max).
:- dynamic(stock/3).
stock(a,1,red). stock(b,2,green). stock(c,2,blue).
explode([], []).
explode([C|Cs], [C|Ds]) :- explode(Cs, Ds).
"""
    cases = [("append([a,b],[d],L), findall(R, s(L,R), Rs), show(Rs)", "[2,4,5]"),
             ("findall(R, s(\"abd\",R), Rs), show(Rs)", "[2,4,5]"),
             ("explode(\"abc\", L), findall(R, s(L,R), Rs), show(Rs)", "[1]"),
             ("findall(R, s(foo,R), Rs), show(Rs)", "[3]"),
             ("append([a,b],[d],L), findall(R, u(L,R), Rs), show(Rs)", "[0,1]"),
             ("findall(R, u(\"abd\",R), Rs), show(Rs)", "[0,1]"),
             ("reverse([d,b,a], L), findall(R, u(L,R), Rs), show(Rs)", "[0,1]"),
             ("findall(R, u([x,y],R), Rs), show(Rs)", "[0,2]"),
             ("findall(R, u(\"xy\",R), Rs), show(Rs)", "[0,2]"),
             ("findall(R, u(f(a),R), Rs), show(Rs)", "[0,3]"),
             ("findall(R, u(g(1),R), Rs), show(Rs)", "[0,4]"),
             ("findall(R, u(g(2),R), Rs), show(Rs)", "[0]"),
             ("Y is 2^60-2^60+7, findall(R, u(Y,R), Rs), show(Rs)", "[0,5]"),
             ("findall(R, u(_,R), Rs), show(Rs)", "[0,1,2,3,4,5]"),
             # a constant in a later argument, the first argument unbound: clauses are tried in turn
             ("X is 2^60-2^60+2, findall(K-C, col(K,X,C), L), show(L)", "[b-green,c-blue]"),
             ("findall(K-C, col(K,2,C), L), show(L)", "[b-green,c-blue]"),
             ("X is 2^60-2^60+2, findall(K-C, stock(K,X,C), L), show(L)", "[b-green,c-blue]"),
             ("X is 2^55-1, findall(K, col(K,X,_), L), show(L)", "[d]")]
    return run_cases(prog, cases, {"model": viol}, prop, "lookahead", batch=True)

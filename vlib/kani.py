"""Engine K: run Kani/CBMC harnesses over a scratch copy of /repo's working tree.

Overlay: harness modules from /verif/kani/*.rs are copied into the scratch copy and attached
to the real source files as `#[cfg(kani)] #[path=...] mod verif_<name>;` child modules.
Nothing is written to /repo.
"""
import fcntl
import hashlib
import json
import os
import re
import shutil
import subprocess
import threading
import time

from .common import CACHE, REPO, VERIF, log

NSLOTS = int(os.environ.get("VERIF_SLOTS", "4"))
KANI_DIR = os.path.join(VERIF, "kani")
JOBS = int(os.environ.get("VERIF_JOBS", "8"))
MEM_KB = int(os.environ.get("VERIF_CBMC_MEM_KB", str(16 * 1024 * 1024)))


class Harness:
    def __init__(self, src, mod, name, cost=30, timeout=None, tiers=("quick", "thorough"),
                 desc="", bounds="", stubs=(), replay="playback", covers_required=True,
                 encodes=()):
        self.src = src            # e.g. src/machine/heap.rs
        self.mod = mod            # harness file stem in /verif/kani, e.g. heap_c33
        self.name = name          # fn name
        self.cost = cost          # estimated seconds
        self.timeout = timeout or max(900, 10 * cost)
        self.tiers = tiers
        self.desc = desc
        self.bounds = bounds
        self.stubs = tuple(stubs)
        self.replay = replay
        self.covers_required = covers_required
        self.encodes = tuple(encodes)

    @property
    def modpath(self):
        p = self.src
        assert p.startswith("src/") and p.endswith(".rs")
        p = p[4:-3]
        parts = [x for x in p.split("/") if x not in ("mod", "lib")]
        if p == "lib":
            parts = []
        return "::".join(parts + ["verif_" + self.mod, self.name])


class HResult:
    def __init__(self, h):
        self.h = h
        self.status = "MISSING"     # SUCCESSFUL | FAILED | TIMEOUT | ERROR | MISSING
        self.checks_total = 0
        self.checks_failed = 0
        self.failed = []            # [(desc, location)]
        self.undetermined = 0
        self.unwind_fail = 0
        self.covers_sat = 0
        self.covers_total = 0
        self.covers_unsat = []
        self.time_s = 0.0
        self.stubs_applied = []
        self.raw = ""
        self.vccs = 0
        self.sat_vars = 0
        self.sat_clauses = 0

    def property_failures(self):
        """failed checks that are not unwinding assertions"""
        return [f for f in self.failed if "unwinding assertion" not in f[0]]

    def verdict(self):
        if self.status == "SUCCESSFUL":
            if self.h.covers_required and self.covers_unsat:
                return "vacuous"
            return "pass"
        if self.status == "FAILED":
            if self.property_failures():
                return "fail"
            if self.unwind_fail:
                return "unwind"
            return "inconclusive"
        return "inconclusive"


class Slot:
    def __init__(self, idx):
        self.idx = idx
        self.dir = os.path.join(CACHE, "slot-%d" % idx)
        os.makedirs(self.dir, exist_ok=True)
        self.src = os.path.join(self.dir, "src")
        self.target = os.path.join(self.dir, "target")
        self.lockf = None

    def try_lock(self, block=False):
        f = open(os.path.join(self.dir, "lock"), "w")
        try:
            fcntl.flock(f, fcntl.LOCK_EX | (0 if block else fcntl.LOCK_NB))
        except OSError:
            f.close()
            return False
        self.lockf = f
        return True

    def unlock(self):
        if self.lockf:
            fcntl.flock(self.lockf, fcntl.LOCK_UN)
            self.lockf.close()
            self.lockf = None


def acquire_slots(n):
    """Lock up to n slots (at least one; blocks for the first if all are busy)."""
    got = []
    for i in range(NSLOTS):
        if len(got) >= n:
            break
        s = Slot(i)
        if s.try_lock():
            got.append(s)
    if not got:
        s = Slot(os.getpid() % NSLOTS)
        s.try_lock(block=True)
        got.append(s)
    return got


def _write_if_changed(path, content):
    try:
        with open(path) as f:
            if f.read() == content:
                return False
    except OSError:
        pass
    os.makedirs(os.path.dirname(path), exist_ok=True)
    with open(path, "w") as f:
        f.write(content)
    return True


def prepare_slot(slot, overlays, extra_files=None):
    """Mirror /repo's working tree into slot.src and attach harness modules.

    overlays: {src_rel_path: [mod_stem, ...]}; extra_files: {abs path in slot: content}
    Files are only rewritten when their content changes, so cargo's mtime fingerprints
    survive between runs.
    """
    os.makedirs(slot.src, exist_ok=True)
    excludes = ["--exclude", "/target", "--exclude", "/.git", "--exclude", "/.verif_kani",
                "--exclude", "/Cargo.toml", "--exclude", "/.cargo"]
    for rel in overlays:
        excludes += ["--exclude", "/" + rel]
    from . import mir as _mir
    _mir.sync_repo(slot.src, excludes=[e for e in excludes if e != "--exclude"])
    # Cargo.toml: declare cfg(kani) to the unexpected_cfgs lint (needed by native playback
    # builds, which unlike `cargo kani` do not pass --check-cfg=cfg(kani) themselves)
    with open(os.path.join(REPO, "Cargo.toml")) as f:
        ct = f.read()
    ct = re.sub(r'(?m)^unexpected_cfgs\s*=\s*"deny"\s*$',
                "unexpected_cfgs = { level = \"deny\", check-cfg = ['cfg(kani)'] }", ct)
    _write_if_changed(os.path.join(slot.src, "Cargo.toml"), ct)
    kdir = os.path.join(slot.src, ".verif_kani")
    os.makedirs(kdir, exist_ok=True)
    wanted = set()
    for rel, mods in overlays.items():
        with open(os.path.join(REPO, rel)) as f:
            body = f.read()
        tail = "\n"
        for m in mods:
            with open(os.path.join(KANI_DIR, m + ".rs")) as f:
                hsrc = f.read()
            hp = os.path.join(kdir, m + ".rs")
            wanted.add(hp)
            _write_if_changed(hp, hsrc)
            tail += '#[cfg(kani)]\n#[path = "%s"]\npub(crate) mod verif_%s;\n' % (hp, m)
        _write_if_changed(os.path.join(slot.src, rel), body + tail)
    for fn in os.listdir(kdir):
        p = os.path.join(kdir, fn)
        if p not in wanted:
            os.unlink(p)
    for p, content in (extra_files or {}).items():
        _write_if_changed(p, content)
    cfgdir = os.path.join(slot.src, ".cargo")
    _write_if_changed(os.path.join(cfgdir, "config.toml"), "[net]\noffline = true\n")


def overlays_for(harnesses):
    ov = {}
    for h in harnesses:
        ov.setdefault(h.src, [])
        if h.mod not in ov[h.src]:
            ov[h.src].append(h.mod)
    return ov


COMMON_MODS = {
    # harness module -> helper modules it needs attached to the same source file (before it)
    "heap_c33": ["heap_common"],
    "heap_c30": ["heap_common"],
    "heap_c20": ["heap_common"],
    "arith_c01": ["arith_common"],
    "arith_c02": ["arith_common"],
    "arith_c04": ["arith_common"],
    "arith_c05": ["arith_common"],
    "heap_c30": ["heap_common"],
}


# helper modules that live in *other* source files: harness module -> [(src, mod)]
EXTRA_OVERLAYS = {
    "arith_c01": [("src/arena.rs", "arena_common")],
    "arith_c02": [("src/arena.rs", "arena_common")],
    "arith_c05": [("src/arena.rs", "arena_common")],
    "arithf_c02": [("src/arena.rs", "arena_common")],
}


def full_overlays(harnesses):
    ov = {}
    for h in harnesses:
        for src, mod in EXTRA_OVERLAYS.get(h.mod, []):
            l2 = ov.setdefault(src, [])
            if mod not in l2:
                l2.append(mod)
        lst = ov.setdefault(h.src, [])
        for dep in COMMON_MODS.get(h.mod, []):
            if dep not in lst:
                lst.append(dep)
        if h.mod not in lst:
            lst.append(h.mod)
    return ov


def kani_cmd(slot, harness_paths, timeout_s, extra=()):
    args = ["cargo", "kani", "--no-default-features", "-Z", "stubbing", "-Z", "unstable-options",
            "--harness-timeout", "%ds" % timeout_s, "--exact", "--target-dir", slot.target]
    for hp in harness_paths:
        args += ["--harness", hp]
    args += list(extra)
    return args


def run_cmd_in_slot(slot, args, logpath, wall_timeout, env_extra=None, mem_kb=None):
    env = dict(os.environ)
    env["CARGO_NET_OFFLINE"] = "true"
    env.pop("RUSTUP_TOOLCHAIN", None)
    if env_extra:
        env.update(env_extra)
    sh = "ulimit -s unlimited 2>/dev/null; ulimit -v %d; exec \"$@\"" % (mem_kb or MEM_KB)
    with open(logpath, "w") as lf:
        p = subprocess.Popen(["bash", "-c", sh, "x"] + args, cwd=slot.src, stdout=lf,
                             stderr=subprocess.STDOUT, env=env, start_new_session=True)
        _CHILDREN.add(p.pid)
        try:
            rc = p.wait(timeout=wall_timeout)
        except subprocess.TimeoutExpired:
            try:
                os.killpg(p.pid, 9)
            except OSError:
                pass
            p.wait()
            rc = -9
        finally:
            _CHILDREN.discard(p.pid)
    return rc


_CHILDREN = set()


def kill_children(*_a):
    """signal handler: a killed check must not leave cargo-kani/cbmc process groups behind"""
    for pid in list(_CHILDREN):
        try:
            os.killpg(pid, 9)
        except OSError:
            pass
    os._exit(143)


_RE_CHECKING = re.compile(r"^(?:Thread (\d+): )?Checking harness (\S+?)\.\.\.\s*$")
_RE_THREAD = re.compile(r"^Thread (\d+): ?(.*)$")


def parse_log(text, harnesses):
    """Split a cargo-kani log (regular, or terse with `Thread N:` prefixes) into per-harness
    blocks and parse each."""
    by_path = {h.modpath: HResult(h) for h in harnesses}
    lines = text.splitlines()
    blocks = {}          # harness path -> [lines]
    thread_h = {}        # thread id -> harness path
    cur = None           # current harness path receiving lines
    for l in lines:
        m = _RE_CHECKING.match(l)
        if m:
            tid, path = m.group(1), m.group(2)
            blocks.setdefault(path, [])
            if tid is not None:
                thread_h[tid] = path
            cur = path
            continue
        if l.startswith("Manual Harness Summary") or l.startswith("Complete - "):
            cur = None
            continue
        m = _RE_THREAD.match(l)
        if m:
            cur = thread_h.get(m.group(1))
            if cur is not None:
                blocks[cur].append(m.group(2))
            continue
        if cur is not None:
            blocks[cur].append(l)
    for path, r in by_path.items():
        b = blocks.get(path)
        if b is None:
            continue
        r.stubs_applied = [x.strip()[len("- Stub:"):].strip() for x in b
                           if x.strip().startswith("- Stub:")]
        _parse_block(b, r)
    stubs = sorted({s_ for r in by_path.values() for s_ in r.stubs_applied})
    return list(by_path.values()), stubs


def _parse_block(b, r):
    txt = "\n".join(b)
    r.raw = txt
    m = re.search(r"VERIFICATION:- (\w+)", txt)
    if m:
        r.status = m.group(1)
    if "CBMC timed out" in txt or "timed out" in txt and not m:
        r.status = "TIMEOUT"
    if re.search(r"out of memory|std::bad_alloc|CBMC failed|Status: ERROR", txt) and (
            not m or m.group(1) == "FAILED"):
        # OOM / crash: never a property failure
        if not re.search(r"- Status: FAILURE", txt):
            r.status = "ERROR"
    m = re.search(r"\*\* (\d+) of (\d+) failed", txt)
    if m:
        r.checks_failed, r.checks_total = int(m.group(1)), int(m.group(2))
    m = re.search(r"\*\* (\d+) of (\d+) cover properties satisfied", txt)
    if m:
        r.covers_sat, r.covers_total = int(m.group(1)), int(m.group(2))
    m = re.search(r"Verification Time: ([\d.]+)s", txt)
    if m:
        r.time_s = float(m.group(1))
    m = re.search(r"Generated (\d+) VCC", txt)
    if m:
        r.vccs = int(m.group(1))
    for m in re.finditer(r"^(\d+) variables, (\d+) clauses", txt, re.M):
        r.sat_vars = max(r.sat_vars, int(m.group(1)))
        r.sat_clauses = max(r.sat_clauses, int(m.group(2)))
    # individual checks
    for m in re.finditer(
            r"Check \d+: (\S+)\n\s+- Status: (\w+)\n\s+- Description: \"(.*?)\"\n(?:\s+- Location: (.*?)\n)?",
            txt):
        cid, st, desc, loc = m.group(1), m.group(2), m.group(3), m.group(4) or ""
        if ".cover." in cid:
            if st in ("UNSATISFIABLE", "UNREACHABLE"):
                r.covers_unsat.append((desc, loc))
            continue
        if st == "FAILURE":
            r.failed.append((desc, loc))
            if "unwinding assertion" in desc:
                r.unwind_fail += 1
        elif st == "UNDETERMINED":
            r.undetermined += 1
    if not r.failed:
        # terse format: "Failed Checks: <desc>\n File: "<file>", line N, in <fn>"
        for m in re.finditer(r"Failed Checks: (.*?)\n\s*File: (.*)", txt):
            desc, loc = m.group(1), m.group(2)
            r.failed.append((desc, loc))
            if "unwinding assertion" in desc:
                r.unwind_fail += 1
    if r.covers_total and r.covers_sat < r.covers_total and not r.covers_unsat:
        r.covers_unsat.append(("%d of %d cover properties not satisfied" % (
            r.covers_total - r.covers_sat, r.covers_total), ""))


def plan_batches(harnesses, nslots):
    """Greedy longest-first partition by estimated cost."""
    hs = sorted(harnesses, key=lambda h: -h.cost)
    n = max(1, min(nslots, len(hs)))
    batches = [[] for _ in range(n)]
    load = [0.0] * n
    for h in hs:
        i = load.index(min(load))
        batches[i].append(h)
        load[i] += h.cost
    return [b for b in batches if b]


def run_harnesses(harnesses, tag, jobs_per_slot=None, want_slots=None, extra_files_fn=None):
    """Run all harnesses; returns (results, meta). Never raises on verification outcomes."""
    t0 = time.time()
    total_cost = sum(h.cost for h in harnesses)
    if want_slots is None:
        want_slots = 1 if total_cost < 400 else 2
    slots = acquire_slots(min(want_slots, len(harnesses)))
    results = []
    meta = {"slots": [s.idx for s in slots], "logs": [], "build_errors": []}
    try:
        batches = plan_batches(harnesses, len(slots))
        threads = []
        lock = threading.Lock()

        def work(slot, batch, bi):
            ov = full_overlays(batch)
            prepare_slot(slot, ov, extra_files_fn(slot) if extra_files_fn else None)
            logdir = os.path.join(slot.dir, "logs")
            os.makedirs(logdir, exist_ok=True)
            logpath = os.path.join(logdir, "%s.%d.log" % (tag, bi))
            per = max(h.timeout for h in batch)
            wall = sum(h.timeout for h in batch) + 900
            extra = []
            j = jobs_per_slot
            if j is None:
                j = max(1, min(len(batch), JOBS // max(1, len(slots))))
            if j > 1 and len(batch) > 1:
                extra += ["-j", str(j), "--output-format", "terse"]
            args = kani_cmd(slot, [h.modpath for h in batch], per, extra)
            rc = run_cmd_in_slot(slot, args, logpath, wall)
            with open(logpath, errors="replace") as f:
                text = f.read()
            res, stubs = parse_log(text, batch)
            with lock:
                results.extend(res)
                meta["logs"].append(logpath)
                if re.search(r"^error(\[E\d+\])?:", text, re.M) and all(
                        r.status == "MISSING" for r in res):
                    errs = re.findall(r"^error.*$", text, re.M)[:5]
                    meta["build_errors"].append({"log": logpath, "errors": errs})

        for bi, (slot, batch) in enumerate(zip(slots, batches)):
            th = threading.Thread(target=work, args=(slot, batch, bi))
            th.start()
            threads.append(th)
        for th in threads:
            th.join()
    finally:
        for s in slots:
            s.unlock()
    meta["wall_s"] = time.time() - t0
    return results, meta


def setup(nslots=NSLOTS):
    """Pre-build the dependency cache in every slot (idempotent)."""
    smoke = ('\n#[cfg(kani)]\nmod verif_smoke {\n    #[kani::proof]\n    fn verif_smoke() '
             '{ let x: u8 = kani::any(); assert!(x as u16 + 1 > 0); }\n}\n')
    first = Slot(0)
    first.try_lock(block=True)
    ok = True
    try:
        prepare_slot(first, {})
        with open(os.path.join(REPO, "src/lib.rs")) as f:
            lib = f.read()
        _write_if_changed(os.path.join(first.src, "src/lib.rs"), lib + smoke)
        rc = run_cmd_in_slot(first, kani_cmd(first, ["verif_smoke::verif_smoke"], 120),
                             os.path.join(first.dir, "setup.log"), 3600)
        with open(os.path.join(first.dir, "setup.log"), errors="replace") as f:
            ok = "VERIFICATION:- SUCCESSFUL" in f.read()
        log("setup: slot-0 built rc=%s ok=%s" % (rc, ok))
        for i in range(1, nslots):
            s = Slot(i)
            if not s.try_lock():
                continue
            try:
                if not os.path.isdir(os.path.join(s.target, "kani")):
                    shutil.rmtree(s.target, ignore_errors=True)
                    subprocess.run(["cp", "-a", first.target, s.target], check=False)
                    log("setup: slot-%d target copied" % i)
            finally:
                s.unlock()
    finally:
        first.unlock()
    return ok


def clean():
    shutil.rmtree(CACHE, ignore_errors=True)

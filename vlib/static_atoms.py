"""C21, static half: every entry of the generated atom! table carries the index the inline rule
gives it, non-inline entries index their own text in STRINGS, and all indices are distinct.
The table is read from the build output of the current tree (same build that produced the MIR
dump); the rule is evaluated by the solver on the key's bytes (finite, ground queries)."""
import glob
import os
import re

from . import mir, smt
from .common import EXIT_INCONCLUSIVE, EXIT_OK, EXIT_VIOLATION, REPLAY_DIR, log, REPO


def _unescape(s):
    out = bytearray()
    i = 0
    while i < len(s):
        c = s[i]
        if c != "\\":
            out += c.encode("utf-8")
            i += 1
            continue
        n = s[i + 1]
        if n == "u":
            j = s.index("}", i)
            out += chr(int(s[i + 3:j], 16)).encode("utf-8")
            i = j + 1
            continue
        if n == "x":
            out.append(int(s[i + 2:i + 4], 16))
            i += 4
            continue
        m = {"0": 0, "n": 10, "r": 13, "t": 9, "\\": 92, '"': 34, "'": 39}
        out.append(m[n])
        i += 2
    return bytes(out)


def load_table():
    mpath, _s, _c = mir.get_mir()
    path = mpath[:-4] + ".static_atoms.rs"
    if not os.path.exists(path):
        # MIR cached by an older version of this tool: regenerate together with the table
        os.unlink(mpath)
        mpath, _s, _c = mir.get_mir()
        path = mpath[:-4] + ".static_atoms.rs"
    if not os.path.exists(path):
        raise RuntimeError("static_atoms.rs not found in the MIR build output")
    with open(path) as f:
        txt = f.read()
    m = re.search(r"static STRINGS: \[&str; (\d+)usize\] = \[(.*?)\n\];", txt, re.S)
    strings = [_unescape(x) for x in re.findall(r'^\s*"((?:[^"\\]|\\.)*)",\s*$', m.group(2), re.M)]
    assert len(strings) == int(m.group(1)), (len(strings), m.group(1))
    mac = txt[txt.index("macro_rules! atom"):]
    mac = mac[:mac.index("compile_error")]
    entries = [(_unescape(k), int(v)) for k, v in
               re.findall(r'\("((?:[^"\\]|\\.)*)"\) => \{\s*Atom \{ index: (\d+)u64 \}', mac)]
    return path, strings, entries


def atom_order_wiring():
    """<Atom as Ord>::cmp is str::cmp(deref(as_str(self)), deref(as_str(other))) - read off the
    MIR of the current tree by symbolic execution (one straight-line path). Together with the
    K round trip as_str(new_inlined(s)) == s this gives: atoms order by their texts' bytes."""
    from .mirsmt import core, util
    mir, _s, _c = util.get()
    names = [n for n in mir.index if re.match(r"^atom_table::<impl at [^>]*>::cmp$", n)]
    res = []
    for n in names:
        body = mir.body(n)
        if "atom_table::Atom" not in body.header:
            continue
        paths = core.Executor(body, max_depth=60).run("bb0")
        ok = bool(paths)
        for p in paths:
            if p.end != "return":
                continue
            r = p.env.get("_0")
            good = False
            if r and r[0] == "app" and r[1].endswith("<str as std::cmp::Ord>::cmp"):
                def src(t):
                    d = 0
                    while t is not None and d < 8:
                        d += 1
                        if t[0] == "app" and t[1].endswith("Atom::as_str"):
                            return t[2][0]
                        if t[0] == "app":
                            t = t[2][0] if t[2] else None
                        elif t[0] == "ref":
                            t = p.env.get(t[1])
                        elif t[0] == "proj":
                            t = t[1]
                        else:
                            return None
                    return None
                good = src(r[2][0]) == ("s", "_1") and src(r[2][1]) == ("s", "_2")
            ok = ok and good
        res.append(ok)
    return bool(res) and all(res)


def inline_rule_wiring():
    """AtomTable::build_with (the run-time creation path of every atom): z3 decides that the set
    of strings sent to Atom::new_inlined is exactly { s : 1 <= len(s) <= 6, no NUL in s } - the
    rule the build script applies to the atom! table (checked against the table separately).
    len, is_empty and contains('\\0') of the argument are the symbolic inputs (is_empty <=> len = 0);
    any other test in the guard is an unconstrained input and makes the query satisfiable.
    -> (answer, note)"""
    from .mirsmt import core, util
    from .mirsmt.smtgen import Encoder
    mir, _s, _c = util.get()
    with open(os.path.join(REPO, "src/atom_table.rs")) as f:
        m = re.search(r"const INLINED_ATOM_MAX_LEN: usize = (\d+);", f.read())
    if not m:
        return None, "INLINED_ATOM_MAX_LEN not found"
    maxlen = int(m.group(1))
    body = None
    for n in mir.index:
        if re.match(r"^atom_table::<impl at [^>]*>::build_with$", n):
            b = mir.body(n)
            if "&atom_table::AtomTable" in b.header.split("\n")[0]:
                body = b
    if body is None:
        return None, "AtomTable::build_with not found"
    heads = util.back_edge_targets(body)
    paths = core.Executor(body, stop_blocks=tuple(heads), max_depth=200, max_paths=500).run("bb0")
    enc = Encoder()

    def boolish(t):
        return t[0] == "app" and re.search(r"is_empty$|contains$|ends_with$|starts_with$|is_char_boundary$", t[1])
    inline, other = [], []
    for p in paths:
        f = enc.conj([(("c", maxlen) if False else c[0], c[1], c[2]) for c in p.conds], boolish)
        ni = [e for e in p.events if e[0] == "call" and e[1].endswith("Atom::new_inlined")]
        if ni and p.end == "return" and ni[0][2][0] == ("s", "_2"):
            inline.append(f)
        else:
            other.append(f)
    if not inline:
        return None, "no path to Atom::new_inlined"
    # tie the leaves to the three symbolic inputs
    ax = []
    ln = em = ct = None
    for t in enc.order:
        key = t[0] if (isinstance(t, tuple) and len(t) == 2 and t[1] in ("Bool",)) else t
        name = enc.leaves[t][0]
        if key[0] == "app" and key[2] and key[2][0] == ("s", "_2"):
            if key[1].endswith("str>::len"):
                ln = name
            elif key[1].endswith("str>::is_empty"):
                em = name
            elif key[1].endswith("str>::contains") and len(key[2]) == 2 and key[2][1] == ("k", "'\\0'"):
                ct = name
        if key[0] == "k" and key[1].endswith("INLINED_ATOM_MAX_LEN"):
            ax.append("(= %s #x%016x)" % (name, maxlen))
    if ln is None:
        return "sat", "the guard does not test len(string)"
    spec = "(and (bvuge %s #x0000000000000001) (bvule %s #x%016x) %s)" % (
        ln, ln, 6, "(not %s)" % ct if ct else "false")
    if em:
        ax.append("(= %s (= %s #x0000000000000000))" % (em, ln))
    q = enc.decls() + "\n(assert (and true %s))\n(assert (not (= (or false %s) %s)))" % (
        " ".join(ax), " ".join(inline), spec)
    r = smt.check("(set-logic ALL)\n(push)\n" + q + "\n(check-sat)\n(pop)\n")
    ans = r["answers"][0] if r.get("answers") else None
    return ans, "%d guard paths, %d to new_inlined" % (len(paths), len(inline))


def growth_wiring():
    """AtomTable::build_with, the interning path: the set of interned atoms is only ever replaced by
    (a) a clone of the current set when the block grows, and (b) a clone of the current set plus the
    new atom after an insertion. Read off the two loop-body paths of the current tree.
    -> (ok, note)"""
    from .mirsmt import core, util
    mir, _s, _c = util.get()
    body = None
    for n in mir.index:
        if re.match(r"^atom_table::<impl at [^>]*>::build_with$", n):
            b = mir.body(n)
            if "&atom_table::AtomTable" in b.header.split("\n")[0]:
                body = b
    if body is None:
        return None, "AtomTable::build_with not found"
    heads = util.back_edge_targets(body)
    grow_ok, ins_ok, n_grow, n_ins = True, True, 0, 0
    for h in heads:
        for p in core.Executor(body, stop_blocks=tuple(heads), max_depth=400, max_paths=800).run(h):
            calls = [e for e in p.events if e[0] == "call"]
            names = [c[1] for c in calls]
            if any(x.endswith("::grow_new") for x in names):
                n_grow += 1
                arcu = [c for c in calls if re.search(r"Arcu.*::new$", c[1])]
                good = False
                if arcu:
                    a0 = arcu[0][2][0]
                    good = a0[0] == "app" and a0[1].endswith("Clone>::clone")
                    rep = [c for c in calls if c[1].endswith("::replace")]
                    good = good and bool(rep) and rep[0][2][1][0] == "agg" and arcu[0][3] in rep[0][2][1][2]
                grow_ok = grow_ok and good
            ins = [c for c in calls if re.search(r"IndexSet.*::insert$", c[1])]
            if ins:
                n_ins += 1
                cl = [c for c in calls if c[1].endswith("Clone>::clone")]
                rep = [c for c in calls if c[1].endswith("::replace")]
                # insert into the local that holds the clone; that local is what replaces the table
                tgt = ins[0][2][0]
                good = bool(cl) and bool(rep) and tgt[0] == "ref" and rep[0][2][1][0] == "s" and \
                    rep[0][2][1][1].split("@")[0] == tgt[1]
                ins_ok = ins_ok and good
    if n_grow == 0 or n_ins == 0:
        return None, "growth / insertion paths not found (%d, %d)" % (n_grow, n_ins)
    return grow_ok and ins_ok, "growth keeps a clone of the set: %s; insertion installs clone + new atom: %s" % (
        grow_ok, ins_ok)


def run():
    try:
        order_ok = atom_order_wiring()
    except Exception as e:  # noqa
        log("  atom order wiring: cannot analyse (%s)" % e)
        return {"exit": EXIT_INCONCLUSIVE, "atom_order": "unreadable: %s" % e}
    try:
        path, strings, entries = load_table()
    except Exception as e:  # noqa
        log("  static atom table: cannot load (%s)" % e)
        return {"exit": EXIT_INCONCLUSIVE, "static_table": "unreadable: %s" % e}
    lines = ["(set-logic ALL)"]
    bad_struct = []
    n_inline = 0
    for k, (key, idx) in enumerate(entries):
        inl = 0 < len(key) <= 6 and 0 not in key
        n_inline += inl
        if inl:
            # rule evaluated by the solver: little-endian bytes, shifted left, inline bit set
            bs = list(key) + [0] * (8 - len(key))
            cat = "(concat " + " ".join("#x%02x" % b for b in reversed(bs)) + ")"
            lines.append("(define-fun want%d () (_ BitVec 64) (bvor (bvshl %s #x0000000000000001) "
                         "#x0000000000000001))" % (k, cat))
        else:
            if idx % 2 or idx // 2 >= len(strings) or strings[idx // 2] != key:
                bad_struct.append((key, idx))
            lines.append("(define-fun want%d () (_ BitVec 64) #x%016x)" % (k, idx & ~1))
        lines.append("(define-fun idx%d () (_ BitVec 64) #x%016x)" % (k, idx))
    lines.append("(push)")
    lines.append("(assert (not (and %s)))" % " ".join("(= idx%d want%d)" % (k, k)
                                                      for k in range(len(entries))))
    lines.append("(check-sat)")
    lines.append("(pop)")
    lines.append("(push)")
    lines.append("(assert (not (distinct %s)))" % " ".join("idx%d" % k for k in range(len(entries))))
    lines.append("(check-sat)")
    lines.append("(pop)")
    r = smt.check("\n".join(lines) + "\n")
    ans = r["answers"]
    ok = ans == ["unsat", "unsat"] and not bad_struct and order_ok
    log("  static atom table: %d entries (%d inline), queries %s, %.2fs; Atom::cmp = str::cmp on "
        "as_str texts: %s" % (len(entries), n_inline, ans, r["z3_s"], order_ok))
    res = {
        "evaluations": 3,
        "distinct_nontrivial": (2 if ans == ["unsat", "unsat"] and not bad_struct else 0) + (1 if order_ok else 0),
        "atom_order_wiring": order_ok,
        "samples": [{"query": "atom! table: index == inline_rule(key) for all %d keys" % len(entries),
                     "answer": ans[0] if ans else None},
                    {"query": "atom! table: indices pairwise distinct", "answer": ans[1] if ans and len(ans) > 1 else None}],
        "static_table_file": path,
        "static_entries": len(entries),
        "static_inline_entries": n_inline,
        "smt_seconds": r["z3_s"],
    }
    table_ok = ans == ["unsat", "unsat"] and not bad_struct
    try:
        ir, note = inline_rule_wiring()
    except Exception as e:  # noqa
        ir, note = None, "cannot analyse (%s)" % e
    log("  AtomTable::build_with inlines exactly the texts with 1 <= len <= 6 and no NUL: %s (%s)" % (ir, note))
    res["evaluations"] += 1
    res["distinct_nontrivial"] += 1 if ir == "unsat" else 0
    res["samples"].append({"query": "run-time inline guard == build-script inline rule", "answer": ir, "note": note})
    try:
        gw, gnote = growth_wiring()
    except Exception as e:  # noqa
        gw, gnote = None, "cannot analyse (%s)" % e
    log("  AtomTable::build_with keeps the interned set across growth and insertion: %s (%s)" % (gw, gnote))
    res["evaluations"] += 1
    res["distinct_nontrivial"] += 1 if gw else 0
    res["samples"].append({"query": "interned set: growth installs a clone, insertion installs clone + atom",
                           "answer": {True: "holds", False: "fails", None: "not understood"}[gw], "note": gnote})
    if ans is None:
        res["exit"] = EXIT_INCONCLUSIVE
    elif gw is not True and table_ok and order_ok and ir == "unsat":
        from . import prolog
        rp = prolog.replay_atom_table_growth([{"obligation": "interned set kept", "note": gnote}])
        if gw is False and rp["reproduced"]:
            log("VIOLATION property=C21 replay=%s" % rp["path"])
            res["exit"] = EXIT_VIOLATION
        else:
            log("  interned-set wiring not confirmed (%s) and the growth replay answers as specified -> inconclusive" % gw)
            res["exit"] = EXIT_INCONCLUSIVE
    elif ir != "unsat" and table_ok and order_ok:
        from . import prolog
        rp = prolog.replay_atom_identity([{"obligation": "inline guard", "answer": ir, "note": note}])
        if ir == "sat" and rp["reproduced"]:
            log("VIOLATION property=C21 replay=%s" % rp["path"])
            res["exit"] = EXIT_VIOLATION
        else:
            log("  inline guard not confirmed (%s) and the replay set answers as specified -> inconclusive" % ir)
            res["exit"] = EXIT_INCONCLUSIVE
    elif not table_ok:
        os.makedirs(os.path.join(REPLAY_DIR, "C21"), exist_ok=True)
        rp = os.path.join(REPLAY_DIR, "C21", "static_table.txt")
        with open(rp, "w") as f:
            f.write("static atom table violates the inline rule or distinctness\n")
            for key, idx in bad_struct[:20]:
                f.write("key %r has index %d but STRINGS disagrees\n" % (key, idx))
            f.write("answers: %s\n" % ans)
        log("VIOLATION property=C21 replay=%s" % rp)
        res["exit"] = EXIT_VIOLATION
    elif not order_ok:
        res["exit"] = order_replay("C21")
    return res


def order_replay(prop):
    """<Atom as Ord>::cmp is no longer the plain text comparison: decide by replaying atom pairs of
    every storage class on the binary (reproduced -> violation, otherwise not understood)"""
    from . import prolog
    rp = prolog.replay_atom_order([{"obligation": "Atom::cmp = str::cmp(as_str(self), as_str(other))"}],
                                  prop)
    if rp["reproduced"]:
        log("VIOLATION property=%s replay=%s" % (prop, rp["path"]))
        return EXIT_VIOLATION
    log("  atom order: Atom::cmp has an unrecognised shape but orders the replay set as specified "
        "(%s) -> inconclusive" % rp.get("why"))
    return EXIT_INCONCLUSIVE

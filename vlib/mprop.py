"""Run an M-only (mirsmt) property check and write its evidence."""
from .common import EXIT_INCONCLUSIVE, EXIT_OK, EXIT_VIOLATION, Timer, log, write_evidence


def run(prop, tier, mfuncs, assumptions, encoded, bounds, outside):
    tm = Timer()
    merged = {"evaluations": 0, "distinct_nontrivial": 0, "samples": []}
    exit_code = EXIT_OK
    extras = {}
    for name, f in mfuncs:
        r = f(thorough=(tier == "thorough"))
        merged["evaluations"] += r.get("evaluations", 0)
        merged["distinct_nontrivial"] += r.get("distinct_nontrivial", 0)
        merged["samples"] += r.get("samples", [])
        for k, v in r.items():
            if k not in ("evaluations", "distinct_nontrivial", "samples", "exit"):
                extras["%s.%s" % (name, k)] = v
        e = r.get("exit", EXIT_OK)
        if e == EXIT_VIOLATION:
            exit_code = EXIT_VIOLATION
        elif e == EXIT_INCONCLUSIVE and exit_code == EXIT_OK:
            exit_code = EXIT_INCONCLUSIVE
    cov = {
        "evaluations": merged["evaluations"],
        "distinct_nontrivial": merged["distinct_nontrivial"],
        "rule": ("one evaluation = one obligation over a MIR region of the current tree that was "
                 "executed symbolically (all paths of the acyclic region): either an SMT query "
                 "(z3; cvc5 cross-check in the thorough tier) over the extracted path conditions "
                 "and events, or - where the obligation is a pure data-flow fact such as 'the "
                 "stored cell is the trailed cell' - a predicate evaluated on every enumerated "
                 "path; non-trivial = decided as holding with the region fully parsed"),
        "samples": merged["samples"][:40] or [{"note": "no query could be formed"}],
        "exhaustive": False,
        "engine": "mirsmt (rustc nightly MIR dump -> path conditions -> SMT-LIB2 -> z3%s)" % (
            " + cvc5" if tier == "thorough" else ""),
        "functions_encoded": list(encoded),
        "bounds": bounds,
        "outside_claim": outside,
    }
    cov.update(extras)
    write_evidence(prop, tier, "model_checking", cov, assumptions, tm.s(),
                   1 if exit_code == EXIT_VIOLATION else 0)
    if exit_code == EXIT_OK:
        log("[%s] held on everything explored (%d SMT queries, %.0fs)" % (
            prop, merged["evaluations"], tm.s()))
    elif exit_code == EXIT_INCONCLUSIVE:
        log("[%s] INCONCLUSIVE" % prop)
    return exit_code

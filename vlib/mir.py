"""MIR dump of the current working tree (nightly rustc -Zunpretty=mir), cached by content hash."""
import hashlib
import os
import subprocess
import time

from .common import CACHE, REPO, log

MIR_DIR = os.path.join(CACHE, "mir")


def tree_hash():
    h = hashlib.sha256()
    roots = ["src", "build", "Cargo.toml", "Cargo.lock"]
    for root in roots:
        p = os.path.join(REPO, root)
        if os.path.isfile(p):
            with open(p, "rb") as f:
                h.update(root.encode() + b"\0" + f.read())
            continue
        for d, dirs, files in sorted(os.walk(p)):
            dirs.sort()
            for fn in sorted(files):
                if not (fn.endswith(".rs") or fn.endswith(".pl") or fn.endswith(".toml")):
                    continue
                fp = os.path.join(d, fn)
                with open(fp, "rb") as f:
                    h.update(os.path.relpath(fp, REPO).encode() + b"\0" + f.read())
    return h.hexdigest()[:20]


def sync_repo(dst, excludes=("/target", "/.git"), extra_args=()):
    """Mirror REPO into dst by CONTENT (no mtimes copied: a changed file gets a fresh mtime, so
    cargo rebuilds it) and, when the tree differs from the one last synced here, touch src/lib.rs
    and build/ so that a build output left by a different tree with newer timestamps is never
    taken as fresh."""
    os.makedirs(dst, exist_ok=True)
    args = ["rsync", "-rlpgoD", "--checksum", "--delete"]
    for e in excludes:
        args += ["--exclude", e]
    args += ["--exclude", "/.verif_tree_hash"]
    subprocess.run(args + list(extra_args) + [REPO + "/", dst + "/"], check=True)
    key = tree_hash()
    stamp = os.path.join(dst, ".verif_tree_hash")
    old = None
    if os.path.exists(stamp):
        with open(stamp) as f:
            old = f.read().strip()
    if old != key:
        for rel in ("src/lib.rs", "build/main.rs", "build.rs", "src/bin/scryer-prolog.rs"):
            fp = os.path.join(dst, rel)
            if os.path.exists(fp):
                os.utime(fp)
        with open(stamp, "w") as f:
            f.write(key)
    return key


def get_mir():
    """Returns (path, seconds, cached). Raises RuntimeError when the dump cannot be produced."""
    os.makedirs(MIR_DIR, exist_ok=True)
    key = tree_hash()
    out = os.path.join(MIR_DIR, key + ".mir")
    if os.path.exists(out) and os.path.getsize(out) > 1_000_000:
        return out, 0.0, True
    import fcntl
    with open(os.path.join(MIR_DIR, "lock"), "w") as lf:
        fcntl.flock(lf, fcntl.LOCK_EX)
        if os.path.exists(out) and os.path.getsize(out) > 1_000_000:
            return out, 0.0, True
        t0 = time.time()
        src = os.path.join(MIR_DIR, "src")
        os.makedirs(src, exist_ok=True)
        sync_repo(src)
        os.utime(os.path.join(src, "src", "lib.rs"))
        env = dict(os.environ)
        env["CARGO_NET_OFFLINE"] = "true"
        env.pop("RUSTUP_TOOLCHAIN", None)
        tmp = out + ".tmp"
        with open(tmp, "w") as f, open(os.path.join(MIR_DIR, "build.log"), "w") as ef:
            rc = subprocess.run(
                ["cargo", "+nightly", "rustc", "--offline", "--lib", "--no-default-features",
                 "--target-dir", os.path.join(MIR_DIR, "target"), "--", "-Zunpretty=mir",
                 "-C", "debug-assertions=off", "-C", "overflow-checks=on"],
                cwd=src, stdout=f, stderr=ef, env=env).returncode
        if rc != 0 or os.path.getsize(tmp) < 1_000_000:
            raise RuntimeError("MIR dump failed (rc=%s), see %s" % (rc, os.path.join(MIR_DIR, "build.log")))
        os.replace(tmp, out)
        # keep one entry
        for fn in os.listdir(MIR_DIR):
            if fn.endswith(".mir") and fn != os.path.basename(out):
                os.unlink(os.path.join(MIR_DIR, fn))
        return out, time.time() - t0, False


def setup():
    try:
        p, s, c = get_mir()
        log("setup: MIR dump %s (%.0fs, cached=%s)" % (p, s, c))
        return True
    except Exception as e:  # noqa
        log("setup: MIR dump failed: %s" % e)
        return False

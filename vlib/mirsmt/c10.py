"""C10 (one step of the unification worklist): the kernels of src/machine/unify.rs that unify one
term of a known kind with an arbitrary dereferenced cell - unify_atom, unify_char, unify_structure,
unify_list, unify_partial_string, unify_f64 (the three number kernels are C05's; unify_constant only routes) -
and the dispatch of Unifier::unify_internal.

Every path of every kernel is enumerated from the MIR and classified by the tag of the other cell:
  V  variable arms (Var, StackVar, AttrVar): exactly one bind(), of the reference kind that
     matches the tag (heap_cell / stack_cell / attr_var), at the cell's own location
     (z3: ref argument == value field of that cell), binding it to a cell built from the kernel's
     own term; `fail` is not set and nothing is pushed;
  D  the default arm (every tag the kernel does not name): fail := true, no binding, no push;
  F  arms that compare functors (Str / Atom cells): with the arity tests and the name tests of the
     arm as Boolean inputs, z3 decides  not failed <=> all of them hold ; at least one arity test
     and one name test exist and each compares the kernel's own functor with the other cell's
     (or with the constant the kernel stands for: './2 for a list, arity 0 for an atom);
  P  argument pairs: Str x Str pushes (s1+1+i, s2+1+i) and Lis x Lis (l1+i, l2+i) for one i
     (z3 over 64-bit indices), first component from the kernel's own term, second from the cell;
  R  unify_internal routes each tag of the first cell to the kernel of that kind with
     (payload of the first cell, second cell) as operands, variables to bind() of their own kind.
Assumed: no Str cell is './2' (lists are Lis / PStrLoc cells), so the two arms that require it are
unreachable and their pushes are not demanded. Outside: the tabu list (rational trees), the
occurs-check variants, partial-string stepping (C20), termination."""
import re

from .. import smt
from ..common import EXIT_INCONCLUSIVE, EXIT_OK, EXIT_VIOLATION, log
from . import core, util
from .c11 import enum_values
from .smtgen import Encoder

KERNELS = ["unify_atom", "unify_char", "unify_structure", "unify_list", "unify_partial_string",
           "unify_f64"]
VAR_REF = {"Var": "heap_cell", "StackVar": "stack_cell", "AttrVar": "attr_var"}
ROUTE = {"AttrVar": "bind:attr_var", "Var": "bind:heap_cell", "StackVar": "bind:stack_cell",
         "Atom": "unify_atom", "Str": "unify_structure", "Lis": "unify_list",
         "PStrLoc": "unify_partial_string", "F64Offset": "unify_f64", "Fixnum": "unify_fixnum",
         "Cons": "unify_constant", "CutPoint": "unify_fixnum"}


def derives_from(t, sym, depth=0, env=None):
    if t is None or depth > 40:
        return False
    if t == sym:
        return True
    if t[0] == "ref" and env is not None:
        m = re.match(r"^\(*\**(_\d+)", t[1])
        v = env.get(t[1])
        if v is None and m:
            v = env.get(m.group(1)) or ("s", m.group(1))
        return derives_from(v, sym, depth + 1, env)
    if t[0] in ("proj", "disc"):
        return derives_from(t[1], sym, depth + 1, env)
    if t[0] in ("app", "op", "agg"):
        return any(derives_from(a, sym, depth + 1, env) for a in t[2])
    return False


def strip_cast(t):
    while t is not None and t[0] == "op" and t[1].startswith("cast"):
        t = t[2][0]
    return t


def subst(t, env, depth=0):
    if t is None or depth > 40:
        return t
    k = t[0]
    if k == "s" and re.match(r"^_\d+$", t[1]) and env.get(t[1]) is not None and env[t[1]] != t:
        return env[t[1]]
    if k == "proj":
        return (k, subst(t[1], env, depth + 1), t[2])
    if k == "disc":
        return (k, subst(t[1], env, depth + 1))
    if k in ("op", "agg"):
        return (k, t[1], tuple(subst(a, env, depth + 1) for a in t[2]))
    if k == "app":
        return (k, t[1], tuple(subst(a, env, depth + 1) for a in t[2]), t[3])
    return t


def path_facts(p, tagname, fail_idx, value):
    tag = None
    default = False
    for c in p.conds:
        if c[0][0] == "disc" and c[0][1][0] == "app" and c[0][1][1].endswith("get_tag") and \
                derives_from(c[0][1], value):
            if c[1] == "==":
                tag = tagname.get(c[2], str(c[2]))
            else:
                default = True
    binds = [e for e in p.events if e[0] == "call" and re.search(r"Unifier>?::bind$|::bind$", e[1])]
    # the unifier's own bind (overridden by the occurs-check unifiers), not MachineState::bind
    foreign = [e for e in binds if not re.search(r"Unifier>?::bind$", e[1])]
    pushes = [e for e in p.events if e[0] == "call" and e[1].endswith("::push") and "HeapCellValue" in e[1]]
    fails = [e[2] for e in p.events if e[0] == "store" and e[1].endswith(".%d" % fail_idx)]
    subs = [e for e in p.events if e[0] == "call" and re.search(
        r"unify_partial_string$|partial_string_to_pdl$", e[1])]
    if foreign:
        subs = subs + [("foreign-bind",)]
    return tag, default, binds, pushes, fails, subs


def run(thorough=False):
    queries, meta, structural = [], [], []
    try:
        mir, secs, cached = util.get()
        tagname = {v: k for k, v in enum_values("src/types.rs", "HeapCellValueTag").items()}
        fail_idx = util.struct_field_index("src/machine/machine_state.rs", "MachineState", "fail")
        for kn in KERNELS:
            names = [n for n in mir.index if n.endswith("Unifier::" + kn)]
            if len(names) != 1:
                raise core.Unsupported("%s: %s" % (kn, names))
            body = mir.body(names[0])
            vm = re.match(r"^(_\d+)", str(body.debug.get("value", "")))
            if not vm:
                raise core.Unsupported("%s: parameter `value` not found" % kn)
            value = ("s", vm.group(1))
            own = [("s", "_%d" % i) for i in range(2, int(vm.group(1)[1:]))]
            heads = util.back_edge_targets(body)
            paths = core.Executor(body, stop_blocks=tuple(heads), max_depth=400, max_paths=4000).run("bb0")
            arms = {}
            seen_var, seen_default = set(), 0
            for p in paths:
                tag, default, binds, pushes, fails, subs = path_facts(p, tagname, fail_idx, value)
                if tag in VAR_REF or (tag is None and not default and binds):
                    # V: variable arms (unify_partial_string recognises variables through as_var)
                    label = "%s x %s: one bind of the cell's own kind at its own location" % (kn, tag or "variable")
                    ok = len(binds) == 1 and not fails and not pushes and not subs
                    if any(x == ("foreign-bind",) for x in subs):
                        label += " through the unifier's bind (the occurs-check variants override it)"
                    q = None
                    if ok:
                        r, bound = binds[0][2][1], binds[0][2][2]
                        if tag in VAR_REF:
                            ok = r[0] == "app" and r[1].endswith("Ref::" + VAR_REF[tag])
                            if ok:
                                enc = Encoder()
                                gv = [c for c in [r[2][0]] if True]
                                loc = enc.bv(r[2][0])
                                want = enc.bv(("app", "types::HeapCellValue::get_value", (value,), 0))
                                # the location must be the value field of `value`: same leaf
                                src = strip_cast(r[2][0])
                                same = src is not None and src[0] == "app" and src[1].endswith("get_value") and \
                                    src[2][0] == value
                                q = enc.decls() + "\n(assert (not %s))" % ("true" if same else "false")
                        else:
                            root = r
                            while root and root[0] == "proj":
                                root = root[1]
                            ok = root is not None and root[0] == "app" and root[1].endswith("as_var") and \
                                root[2][0] == value
                            q = "(assert (not %s))" % ("true" if ok else "false")
                        ok = ok and not derives_from(bound, value) and any(derives_from(bound, o) for o in own)
                    if q is not None and ok:
                        queries.append(q)
                        meta.append({"obligation": label})
                    else:
                        structural.append({"obligation": label, "ok": False if not ok else None})
                    seen_var.add(tag or "as_var")
                    continue
                if default and tag is None:
                    seen_default += 1
                    ok = fails == [("c", 1)] and not binds and not pushes and not subs
                    structural.append({"obligation": "%s: every other kind of cell fails the unification" % kn,
                                       "ok": ok})
                    continue
                if tag is not None:
                    arms.setdefault(tag, []).append((p, binds, pushes, fails, subs))
            if seen_var != set(VAR_REF) and seen_var != {"as_var"}:
                structural.append({"obligation": "%s handles Var, StackVar and AttrVar cells" % kn,
                                   "ok": False, "why": "found %s" % sorted(seen_var)})
            if not seen_default:
                structural.append({"obligation": "%s has a failing default arm" % kn, "ok": None})
            # F: functor-comparing arms
            for tag, recs in arms.items():
                leaves_a, leaves_n = [], []
                leaf_env = {}
                for (p, _b, _pu, _f, _s) in recs:
                    for c in p.conds:
                        leaf_env.setdefault(c[0], p.env)
                        t = c[0]
                        if t[0] == "op" and t[1] == "Eq" and any(
                                x[0] == "proj" and x[2] == ".1" and x[1][0] == "app" and
                                x[1][1].endswith("get_name_and_arity") for x in t[2]):
                            if t not in leaves_a:
                                leaves_a.append(t)
                        elif t[0] == "app" and re.search(r"PartialEq.*::eq$|::eq$", t[1]):
                            if t not in leaves_n:
                                leaves_n.append(t)
                for (p, _b, _pu, fails, _s) in recs:
                    for f in fails:
                        if f[0] == "op" and f[1] == "Not" and f[2][0][0] == "app":
                            leaf_env.setdefault(f[2][0], p.env)
                            if f[2][0] not in leaves_n:
                                leaves_n.append(f[2][0])
                if not leaves_a and not leaves_n:
                    continue
                names_ = {}
                for i, t in enumerate(leaves_a):
                    names_[t] = "a%d" % i
                for i, t in enumerate(leaves_n):
                    names_[t] = "n%d" % i
                ok_cubes, fail_cubes = [], []
                for (p, binds, pushes, fails, subs) in recs:
                    cs = []
                    for c in p.conds:
                        if c[0] in names_:
                            truth = (c[2] != 0) if c[1] == "==" else (0 in c[2])
                            cs.append(names_[c[0]] if truth else "(not %s)" % names_[c[0]])
                    cube = "(and true %s)" % " ".join(cs)
                    if fails == [("c", 1)]:
                        fail_cubes.append(cube)
                    elif fails and fails[0][0] == "op" and fails[0][1] == "Not" and fails[0][2][0] in names_:
                        nm = names_[fails[0][2][0]]
                        fail_cubes.append("(and %s (not %s))" % (cube, nm))
                        ok_cubes.append("(and %s %s)" % (cube, nm))
                    elif not fails:
                        ok_cubes.append(cube)
                    else:
                        structural.append({"obligation": "%s x %s: fail is set to a recognised value" % (kn, tag),
                                           "ok": None})
                decl = "\n".join("(declare-const %s Bool)" % v for v in names_.values())
                allc = "(and true %s)" % " ".join(names_.values())
                q = decl + "\n(assert (not (and (= (or false %s) %s) (= (or false %s) (not %s)))))" % (
                    " ".join(ok_cubes), allc, " ".join(fail_cubes), allc)
                queries.append(q)
                meta.append({"obligation": "%s x %s: not failed <=> the %d arity and %d name tests all hold" % (
                    kn, tag, len(leaves_a), len(leaves_n))})
                need_both = tag in ("Str", "Atom") or (kn == "unify_structure" and tag == "Lis")
                if need_both:
                    structural.append({"obligation": "%s x %s compares both arity and name" % (kn, tag),
                                       "ok": bool(leaves_a) and bool(leaves_n),
                                       "why": "%d arity, %d name tests" % (len(leaves_a), len(leaves_n))})
                # provenance: every test involves the other cell's functor or the kernel's own term
                for t in leaves_a + leaves_n:
                    args = t[2]
                    ev = leaf_env.get(t)
                    inv_val = any(derives_from(a, value, 0, ev) for a in args)
                    inv_own = any(any(derives_from(a, o, 0, ev) for o in own) for a in args)

                    def is_const(a, d=0):
                        if a is None or d > 6:
                            return False
                        if a[0] in ("c", "atom", "k") or (a[0] == "agg" and "Atom" in a[1]):
                            return True
                        if a[0] == "ref" and ev is not None:
                            v = ev.get(a[1])
                            return v is not None and is_const(v, d + 1)
                        return False
                    const = any(is_const(a) for a in args)
                    good = (inv_val and (inv_own or const)) or (inv_own and const)
                    if not good:
                        structural.append({"obligation": "%s x %s: a functor test compares the two terms' functors" % (
                            kn, tag), "ok": False, "why": util.term_str(t)[:120]})
            # P: argument pairs pushed in the loops
            for h in heads:
                outer = None
                for p in paths:
                    if p.end == h or (p.trace and p.trace[-1] == h) or p.end == "LOOP:" + h:
                        outer = p
                lp = core.Executor(body, stop_blocks=tuple(heads), max_depth=200, max_paths=200).run(h)
                for p in lp:
                    pushes = [e for e in p.events if e[0] == "call" and e[1].endswith("::push") and "HeapCellValue" in e[1]]
                    if len(pushes) != 1:
                        continue
                    otag = None
                    if outer is not None:
                        otag = path_facts(outer, tagname, fail_idx, value)[0]
                    t = subst(pushes[0][2][1], outer.env if outer is not None else {})
                    if not (t[0] == "agg" and len(t[2]) == 2):
                        structural.append({"obligation": "%s: argument pair shape" % kn, "ok": None})
                        continue
                    idx = []
                    for comp in t[2]:
                        if comp[0] == "app" and comp[1].endswith("build_with") and \
                                comp[2][0][0] == "agg" and comp[2][0][1].endswith("HeapCellValueTag::Var"):
                            idx.append(comp[2][1])
                        else:
                            idx.append(None)
                    label = "%s x %s: pushes the argument pair (own+i, other+i) for one i" % (kn, otag)
                    dead = (kn == "unify_structure" and otag == "Lis") or (kn == "unify_list" and otag == "Str")
                    if dead:
                        structural.append({"obligation": "%s x %s: reachable only for a Str cell './2' (assumed "
                                           "absent): pairing not demanded" % (kn, otag), "ok": True})
                        continue
                    if None in idx:
                        structural.append({"obligation": label, "ok": None, "why": "components are not locations"})
                        continue
                    side_ok = any(derives_from(idx[0], o) for o in own) and not derives_from(idx[0], value) and \
                        derives_from(idx[1], value)
                    enc = Encoder()
                    i0, i1 = enc.bv(idx[0]), enc.bv(idx[1])
                    # bases: the kernel's own location operand and the other cell's value field
                    b0 = enc.bv(own[0])
                    gv = []

                    def find_gv(x, d=0):
                        if x is None or d > 30:
                            return
                        if x[0] == "app" and x[1].endswith("get_value") and x[2][0] == value:
                            gv.append(x)
                        if x[0] in ("proj", "disc"):
                            find_gv(x[1], d + 1)
                        elif x[0] in ("app", "op", "agg"):
                            for a in x[2]:
                                find_gv(a, d + 1)
                    find_gv(idx[1])
                    if not gv or not side_ok:
                        structural.append({"obligation": label, "ok": False, "why": "sides / bases"})
                        continue
                    b1 = enc.bv(gv[0])
                    queries.append(enc.decls() + "\n(assert (not (= (bvsub %s %s) (bvsub %s %s))))" % (i0, b0, i1, b1))
                    meta.append({"obligation": label})
        # R: routing in unify_internal
        names = [n for n in mir.index if n.endswith("Unifier::unify_internal")]
        if len(names) != 1:
            raise core.Unsupported("unify_internal: %s" % names)
        body = mir.body(names[0])
        heads = util.back_edge_targets(body)
        paths = core.Executor(body, stop_blocks=tuple(heads), max_depth=400, max_paths=6000).run(heads[0])
        routed = {}
        for p in paths:
            tag = None
            d1 = None
            for c in p.conds:
                if c[0][0] == "disc" and c[0][1][0] == "app" and c[0][1][1].endswith("get_tag") and c[1] == "==":
                    if tag is None:
                        tag = tagname.get(c[2], str(c[2]))
                        d1 = c[0][1][2][0]
            if tag is None:
                continue
            tgt = None
            for e in p.events:
                if e[0] != "call":
                    continue
                m = re.search(r"Unifier>?::(unify_\w+|bind)$", e[1])
                if m and m.group(1) != "unify_internal":
                    if m.group(1) == "bind":
                        r = e[2][1]
                        kind = r[1].split("::")[-1] if r[0] == "app" else "?"
                        own_loc = r[0] == "app" and derives_from(r[2][0], d1)
                        other = e[2][2]
                        tgt = "bind:%s" % kind if own_loc and not derives_from(other, d1) else "bind:?"
                    else:
                        a_own, a_other = e[2][1], e[2][2]
                        ok_ops = derives_from(a_own, d1) and not derives_from(a_other, d1)
                        tgt = m.group(1) if ok_ops else m.group(1) + "(operands?)"
                    break
            if tgt:
                routed.setdefault(tag, set()).add(tgt)
        # a tabu-list hit skips the current pair only: the path goes on with the next pair
        tabu_paths, tabu_leave = 0, 0
        for p in paths:
            hit = any(c[0][0] == "app" and c[0][1].endswith("::contains") and
                      ((c[1] == "not_in" and 0 in c[2]) or (c[1] == "==" and c[2] != 0)) for c in p.conds)
            if hit:
                tabu_paths += 1
                if p.end not in heads and p.end not in ["LOOP:" + h for h in heads]:
                    tabu_leave += 1
        structural.append({"obligation": "unify_internal: a pair already on the tabu list is skipped and the work "
                           "list is carried on (%d paths)" % tabu_paths, "ok": tabu_paths > 0 and tabu_leave == 0,
                           "why": "%d of them leave the loop" % tabu_leave})
        for tag, want in ROUTE.items():
            got = routed.get(tag, set())
            structural.append({"obligation": "unify_internal: a %s cell is handled by %s" % (tag, want),
                               "ok": got == {want}, "why": "found %s" % sorted(got)})
    except Exception as e:  # noqa
        log("  mirsmt C10: cannot analyse (%s)" % e)
        return {"exit": EXIT_INCONCLUSIVE, "mirsmt_error": str(e)}
    # dedupe structural
    seen, us = set(), []
    for st in structural:
        k = (st["obligation"], st["ok"], st.get("why"))
        if k not in seen:
            seen.add(k)
            us.append(st)
    structural = us
    br = smt.check_batch(queries, thorough=thorough)
    res = {"evaluations": len(queries) + len(structural), "distinct_nontrivial": 0, "samples": [],
           "mirsmt_regions": ["Unifier::" + k for k in KERNELS] + ["Unifier::unify_internal (loop body)"],
           "mirsmt_seconds": br["z3_s"]}
    if br["results"] is None or (thorough and br["agree"] is False):
        res["exit"] = EXIT_INCONCLUSIVE
        return res
    viol, unknown = [], []
    for m, r in zip(meta, br["results"]):
        if r["answer"] == "unsat":
            res["distinct_nontrivial"] += 1
        elif r["answer"] == "sat":
            viol.append({**m, "answer": "sat"})
        else:
            unknown.append(m)
        res["samples"].append({"query": m["obligation"], "answer": r["answer"]})
    for st in structural:
        if st["ok"] is True:
            res["distinct_nontrivial"] += 1
        elif st["ok"] is False:
            viol.append(st)
        else:
            unknown.append(st)
        res["samples"].append({"query": st["obligation"], "answer": {True: "holds", False: "fails",
                                                                     None: "not understood"}[st["ok"]],
                               "note": st.get("why", "")})
    log("  mirsmt C10: %d kernels + unify_internal: %d obligations (%d solver queries), %d hold, %d violated, "
        "%d not understood (z3 %.2fs)" % (len(KERNELS), len(queries) + len(structural), len(queries),
                                          res["distinct_nontrivial"], len(viol), len(unknown), br["z3_s"]))
    res["exit"] = EXIT_OK
    if viol:
        res["mirsmt_violations"] = viol
        from .. import prolog
        rp = prolog.replay_unification(viol)
        if rp["reproduced"]:
            log("VIOLATION property=C10 replay=%s" % rp["path"])
            res["exit"] = EXIT_VIOLATION
        else:
            for v in viol[:5]:
                log("    fails: %s" % v)
            log("  mirsmt C10: the unification replay answers as specified (%s) -> inconclusive" % rp.get("why"))
            res["exit"] = EXIT_INCONCLUSIVE
    elif unknown:
        res["mirsmt_not_understood"] = unknown
        for u in unknown[:5]:
            log("    not understood: %s" % u)
        res["exit"] = EXIT_INCONCLUSIVE
    return res

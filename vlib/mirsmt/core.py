"""mirsmt core: parse rustc's -Zunpretty=mir text and symbolically execute acyclic regions.

Values are terms (nested tuples):
  ("c", int)                     integer / bool / discriminant constant
  ("s", name)                    free symbol (an input: a place that was read before written)
  ("ref", placekey)              reference to a place
  ("app", fname, (args...), id)  result of the id-th call on the path (uninterpreted)
  ("op", opname, (args...))      BinaryOp / UnaryOp / cast
  ("disc", term)                 discriminant(term)
  ("proj", term, text)           projection out of an opaque value
  ("agg", head, (fields...))     aggregate rvalue
  ("atom", index)                atom_table::Atom constant
Paths carry: conds [(term, "==", value) | (term, "not_in", (values))], events, env.
Nothing here knows about Prolog; property modules interpret paths.
"""
import re

RE_FN = re.compile(r"^fn (.+?)\((.*)\) -> (.+?) \{\s*$")
RE_BB = re.compile(r"^    (bb\d+)(?: \(cleanup\))?: \{\s*$")


class Body:
    def __init__(self, name, header):
        self.name = name
        self.header = header
        self.blocks = {}      # bb -> [lines]
        self.decls = {}       # _n -> type text
        self.debug = {}       # source name -> place text


class Mir:
    """Lazy index over the dump: function name -> (start line, end line)."""

    def __init__(self, path):
        self.path = path
        with open(path, errors="replace") as f:
            self.lines = f.read().split("\n")
        self.index = {}
        cur = None
        for i, l in enumerate(self.lines):
            if l.startswith("fn "):
                m = RE_FN.match(l)
                if m:
                    cur = (m.group(1), i)
            elif l == "}" and cur:
                self.index.setdefault(cur[0], []).append((cur[1], i))
                cur = None
        self._cache = {}

    def find(self, pattern):
        """names matching a regex"""
        r = re.compile(pattern)
        return [n for n in self.index if r.search(n)]

    def body(self, name, which=0):
        key = (name, which)
        if key in self._cache:
            return self._cache[key]
        s, e = self.index[name][which]
        b = Body(name, self.lines[s])
        cur = None
        for l in self.lines[s + 1:e]:
            m = RE_BB.match(l)
            if m:
                cur = m.group(1)
                b.blocks[cur] = []
                continue
            if cur is not None:
                if l.strip() == "}":
                    cur = None
                else:
                    b.blocks[cur].append(l.strip())
                continue
            m = re.match(r"\s*let (?:mut )?(_\d+): (.+);$", l)
            if m:
                b.decls[m.group(1)] = m.group(2)
            m = re.match(r"\s*debug (\S+) => (.+);$", l)
            if m:
                b.debug[m.group(1)] = m.group(2)
        hm = RE_FN.match(self.lines[s])
        for a in split_top(hm.group(2)):
            a = a.strip()
            m = re.match(r"(?:mut )?(_\d+): (.+)$", a)
            if m:
                b.decls[m.group(1)] = m.group(2)
        self._cache[key] = b
        return b


def split_top(s, sep=","):
    """split on sep at bracket depth 0"""
    out, depth, cur = [], 0, ""
    i = 0
    while i < len(s):
        c = s[i]
        if c in "([{<":
            # '<' also appears in comparisons only inside const exprs, which MIR prints as ops
            depth += 1
        elif c in ")]}>":
            if c == ">" and i > 0 and s[i - 1] in "-=":
                pass  # '->' / '=>'
            else:
                depth -= 1
        if c == sep and depth == 0:
            out.append(cur)
            cur = ""
        else:
            cur += c
        i += 1
    if cur.strip():
        out.append(cur)
    return out


class Unsupported(Exception):
    pass


# ---------------------------------------------------------------- places
def norm_place(p):
    return p.strip()


def strip_type(p):
    """((X).f: T) -> (X).f   (drop the type annotation of the outermost projection)"""
    p = p.strip()
    if p.startswith("(") and p.endswith(")"):
        inner = p[1:-1]
        # find last ': ' at depth 0
        depth = 0
        for i in range(len(inner) - 1, -1, -1):
            c = inner[i]
            if c in ")]}>":
                depth += 1
            elif c in "([{<":
                depth -= 1
            elif c == ":" and depth == 0 and inner[i + 1:i + 2] == " " and inner[i - 1] != ":":
                return inner[:i].strip(), inner[i + 1:].strip()
    return p, None


import os as _os
HAVOC_LOCALS = _os.environ.get("VERIF_NO_HAVOC") is None


def refs_in(terms, depth=0, out=None):
    """places referenced (("ref", place)) anywhere inside the given terms"""
    if out is None:
        out = set()
    if depth > 12:
        return out
    for t in terms:
        if not isinstance(t, tuple) or not t:
            continue
        if t[0] == "ref":
            out.add(t[1])
        elif t[0] in ("agg", "op"):
            # not into ("app", ..): a call result cannot still hold the &mut borrow of a local
            # that the code reads directly afterwards (borrow rules), so only operands that ARE
            # references / closures / aggregates of them pass a borrow on
            refs_in(t[2], depth + 1, out)
        elif t[0] in ("proj", "disc"):
            refs_in((t[1],), depth + 1, out)
    return out


class Path:
    def __init__(self):
        self.env = {}
        self.conds = []
        self.events = []
        self.ncalls = 0
        self.end = None
        self.trace = []
        self.mutrefs = set()      # plain locals whose address was taken with &mut

    def clone(self):
        p = Path()
        p.mutrefs = set(self.mutrefs)
        p.env = dict(self.env)
        p.conds = list(self.conds)
        p.events = list(self.events)
        p.ncalls = self.ncalls
        p.trace = list(self.trace)
        return p


class Executor:
    def __init__(self, body, stop_blocks=(), max_depth=400, max_paths=4000, on_call=None,
                 assume_calls=None):
        self.b = body
        self.stop = set(stop_blocks)
        self.max_depth = max_depth
        self.max_paths = max_paths
        self.paths = []
        self.on_call = on_call            # fn(path, fname, args, dst) -> optional value
        self.assume_calls = assume_calls or {}

    # ---- operand / place evaluation
    def read_place(self, path, p):
        p = norm_place(p)
        if p in path.env:
            return path.env[p]
        # deref of a local holding a reference
        m = re.match(r"^\(\*(_\d+)\)$", p)
        if m:
            v = path.env.get(m.group(1))
            if v and v[0] == "ref":
                return self.read_place(path, v[1])
            return ("proj", self.read_place(path, m.group(1)), "*")
        if re.match(r"^_\d+$", p):
            return ("s", p)
        base, proj = self.split_last_projection(p)
        if base is None:
            return ("s", p)
        # resolve references in the base so that writes through aliases are seen
        rb = self.resolve(path, base)
        key = self.join(rb, proj)
        if key in path.env:
            return path.env[key]
        bv = self.read_place(path, rb) if rb != p else ("s", rb)
        if bv[0] == "agg" and re.match(r"^\.\d+$", proj) and int(proj[1:]) < len(bv[2]):
            return bv[2][int(proj[1:])]
        return ("proj", bv, proj)

    def resolve(self, path, p):
        """rewrite (*_n) when _n is a known reference"""
        p = p.strip()
        m = re.match(r"^\(\*(_\d+)\)$", p)
        if m:
            v = path.env.get(m.group(1))
            if v and v[0] == "ref":
                return self.resolve(path, v[1])
            return p
        base, proj = self.split_last_projection(p)
        if base is None:
            return p
        return self.join(self.resolve(path, base), proj)

    @staticmethod
    def join(base, proj):
        if proj.startswith(" as "):
            return "(%s%s)" % (base, proj)
        if re.match(r"^[_\w]+$", base) or (base.startswith("(") and base.endswith(")")
                                           and balanced(base[1:-1])):
            return "%s%s" % (base, proj)
        return "(%s)%s" % (base, proj)

    @staticmethod
    def split_last_projection(p):
        """(X.f: T) | (X as V) | X[i] -> (X, projection text)"""
        p = p.strip()
        inner, ty = strip_type(p)
        if ty is not None:
            # inner is like  (Y).3  or  _5.0  or ((..) as V).0
            m = re.match(r"^(.*)\.(\d+)$", inner)
            if m:
                return m.group(1).strip(), "." + m.group(2)
        if p.startswith("(") and p.endswith(")"):
            inner = p[1:-1]
            m = re.match(r"^(.*) as (\w+)$", inner)
            if m and balanced(m.group(1)):
                return m.group(1).strip(), " as " + m.group(2)
        m = re.match(r"^(.*)\[(.+)\]$", p)
        if m and balanced(m.group(1)):
            return m.group(1).strip(), "[" + m.group(2) + "]"
        m = re.match(r"^(.*)\.(\d+)$", p)
        if m and balanced(m.group(1)):
            return m.group(1).strip(), "." + m.group(2)
        return None, None

    def operand(self, path, o):
        o = o.strip()
        if o.startswith("no_retag "):
            o = o[len("no_retag "):]
        if o.startswith("copy ") or o.startswith("move "):
            return self.read_place(path, o[5:])
        if o.startswith("const "):
            return parse_const(o[6:])
        return self.read_place(path, o)

    def rvalue(self, path, r):
        r = r.strip()
        if r.startswith("no_retag "):
            r = r[len("no_retag "):]
        m = re.match(r"^((?:copy|move|const) .+) as (.+?) \((\w+)\)$", r)
        if m and balanced(m.group(1)):
            return ("op", "cast:" + m.group(3), (self.operand(path, m.group(1)),))
        if r.startswith("copy ") or r.startswith("move ") or r.startswith("const "):
            return self.operand(path, r)
        m = re.match(r"^&(mut |raw const |raw mut )?(.+)$", r)
        if m:
            tgt = self.resolve(path, m.group(2))
            if m.group(1) in ("mut ", "raw mut ") and re.match(r"^_\d+$", tgt):
                path.mutrefs.add(tgt)
            return ("ref", tgt)
        m = re.match(r"^discriminant\((.+)\)$", r)
        if m:
            v = self.read_place(path, m.group(1))
            if v[0] == "agg":
                for suf, d in (("::Ok", 0), ("::Err", 1), ("::None", 0), ("::Some", 1)):
                    if v[1].endswith(suf):
                        return ("c", d)
            return ("disc", v)
        m = re.match(r"^(\w+)\((.*)\)$", r)
        if m and m.group(1) in BINOPS | UNOPS | {"AddWithOverflow", "SubWithOverflow",
                                                 "MulWithOverflow", "PtrMetadata"}:
            args = tuple(self.operand(path, a) for a in split_top(m.group(2)))
            return simplify(("op", m.group(1), args))
        m = re.match(r"^(.+) as (.+?) \((\w+)\)$", r)
        if m:
            return ("op", "cast:" + m.group(3), (self.operand(path, m.group(1)),))
        m = re.match(r"^\((.*)\)$", r)
        if m and "," in r:
            return ("agg", "tuple", tuple(self.operand(path, a) for a in split_top(m.group(1))))
        if r == "()":
            return ("agg", "tuple", ())
        m = re.match(r"^([\w:<>' ,&]+?|\{closure@[^}]*\}|\{coroutine@[^}]*\})\s*\{(.*)\}$", r)
        if m:
            fields = []
            for a in split_top(m.group(2)):
                if ":" in a:
                    fields.append(self.operand(path, a.split(":", 1)[1]))
            return ("agg", "struct:" + m.group(1).strip(), tuple(fields))
        if r.endswith(")") and not r.startswith("("):
            _d, head, args = split_call(r)
            return ("agg", "ctor:" + head.strip(),
                    tuple(self.operand(path, a) for a in split_top(args)))
        m = re.match(r"^\[(.*)\]$", r)
        if m:
            return ("agg", "array", tuple(self.operand(path, a) for a in split_top(
                m.group(1).replace(";", ","))))
        if re.match(r"^[\w:<>' ,&()\[\];]+$", r) and "::" in r:
            return ("agg", "unit:" + r, ())
        raise Unsupported("rvalue: " + r)

    def assign(self, path, place, value):
        key = self.resolve(path, norm_place(place))
        inner, ty = strip_type(key)
        # writes are keyed without the outer type annotation being relevant: keep key as is
        # invalidate sub-places of key
        for k in [k for k in path.env if k != key and (k.startswith(key + ".") or
                                                      k.startswith("(" + key))]:
            del path.env[k]
        path.env[key] = value
        if not re.match(r"^_\d+$", key):
            path.events.append(("store", key, value))

    # ---- execution
    def run(self, entry):
        p = Path()
        self._go(entry, p, 0)
        return self.paths

    def _finish(self, path, end):
        path.end = end
        self.paths.append(path)
        if len(self.paths) > self.max_paths:
            raise Unsupported("too many paths")

    def _go(self, bb, path, depth):
        while True:
            if depth > self.max_depth:
                return self._finish(path, "DEPTH")
            if bb in self.stop and path.trace:
                return self._finish(path, bb)
            if path.trace.count(bb) >= 2:
                return self._finish(path, "LOOP:" + bb)
            path.trace.append(bb)
            lines = self.b.blocks[bb]
            for l in lines[:-1]:
                self.statement(path, l)
            t = lines[-1]
            depth += 1
            # ---- terminators
            if t.startswith("goto -> "):
                bb = t[8:].rstrip(";")
                continue
            if t == "return;":
                return self._finish(path, "return")
            if t.startswith("unreachable"):
                return self._finish(path, "unreachable")
            if t.startswith("resume") or t.startswith("abort") or t.startswith("terminate"):
                return self._finish(path, "unwind")
            m = re.match(r"^drop\((.+?)\) -> \[return: (bb\d+)", t)
            if m:
                bb = m.group(2)
                continue
            m = re.match(r"^assert\((!?)(.+?), \".*\) -> \[success: (bb\d+)", t)
            if m:
                # overflow / bounds assertions: assumed to hold (dev-profile panics are K's job)
                bb = m.group(3)
                continue
            m = re.match(r"^switchInt\((.+?)\) -> \[(.+)\];$", t)
            if m:
                v = self.operand(path, m.group(1))
                targets = re.findall(r"(\d+|otherwise): (bb\d+)", m.group(2))
                if v[0] == "c":
                    tb = None
                    for val, tgt in targets:
                        if val != "otherwise" and int(val) == v[1]:
                            tb = tgt
                    if tb is None:
                        tb = dict(targets).get("otherwise")
                    bb = tb
                    continue
                vals = [int(val) for val, _ in targets if val != "otherwise"]
                for val, tgt in targets:
                    if self.b.blocks.get(tgt) == ["unreachable;"]:
                        continue
                    p2 = path.clone()
                    if val == "otherwise":
                        p2.conds.append((v, "not_in", tuple(vals)))
                    else:
                        p2.conds.append((v, "==", int(val)))
                    if contradictory(p2.conds):
                        continue
                    self._go(tgt, p2, depth)
                return
            m = re.match(r"^(.*\)) -> \[return: (bb\d+)(?:, unwind.*)?\];$", t)
            if m:
                ret = m.group(2)
                dst, fn, args = split_call(m.group(1))
                fn = strip_turbofish(fn)
                argv = tuple(self.operand(path, a) for a in split_top(args)) if args.strip() else ()
                path.ncalls += 1
                res = ("app", fn.strip(), argv, path.ncalls)
                path.events.append(("call", fn.strip(), argv, res))
                if self.on_call:
                    r2 = self.on_call(path, fn.strip(), argv, res)
                    if r2 is not None:
                        res = r2
                if HAVOC_LOCALS and path.mutrefs:
                    # a callee may write through a &mut to a plain local that reaches it (directly
                    # or inside a closure / aggregate operand): forget what is known about it
                    for loc in refs_in(argv) & path.mutrefs:
                        for k in [k for k in path.env if k == loc or re.match(
                                r"^\(*%s(?![0-9])" % re.escape(loc), k)]:
                            del path.env[k]
                        path.env[loc] = ("s", "%s@%d" % (loc, path.ncalls))
                if dst:
                    self.assign_local_or_place(path, dst, res)
                bb = ret
                continue
            m = re.match(r"^(.*\)) -> (?:unwind .*|\[unwind.*\]|bb\d+);$", t) if re.match(
                r"^_\d+ = (core::panicking::)?(panic|panic_fmt|unreachable_display|panic_bounds_check)", t) or \
                not re.match(r"^(.*\)) -> bb\d+;$", t) else None
            if m:
                # diverging call (panic, todo!, unreachable!)
                path.events.append(("call", split_call(m.group(1))[1].strip(), (), None))
                return self._finish(path, "diverge")
            raise Unsupported("terminator: " + t)

    def assign_local_or_place(self, path, dst, val):
        dst = dst.strip()
        if re.match(r"^_\d+$", dst):
            for k in [k for k in path.env if k.startswith(dst + ".") or k.startswith("(" + dst)]:
                del path.env[k]
            path.env[dst] = val
        else:
            self.assign(path, dst, val)

    def statement(self, path, l):
        if l.startswith("StorageLive") or l.startswith("StorageDead") or l == "nop;" or \
                l.startswith("FakeRead") or l.startswith("PlaceMention") or l.startswith("Retag") \
                or l.startswith("AscribeUserType") or l.startswith("Coverage") or \
                l.startswith("ConstEvalCounter") or l.startswith("Deinit") or l.startswith("//"):
            return
        m = re.match(r"^(.+?) = (.+);$", l)
        if not m:
            m2 = re.match(r"^discriminant\((.+?)\) = (\d+);$", l)
            if m2:
                return
            raise Unsupported("statement: " + l)
        dst, rv = m.group(1), m.group(2)
        val = self.rvalue(path, rv)
        self.assign_local_or_place(path, dst, val)


def strip_turbofish(fn):
    """f::<T, U> -> f (generic instantiation suffix of the called path)"""
    fn = fn.strip()
    if fn.endswith(">"):
        depth = 0
        for i in range(len(fn) - 1, -1, -1):
            if fn[i] == ">" and fn[i - 1:i] != "-":
                depth += 1
            elif fn[i] == "<":
                depth -= 1
                if depth == 0:
                    if fn[:i].endswith("::") and not fn[:i].endswith(">::") or fn[:i].endswith("::"):
                        head = fn[:i - 2]
                        # only a trailing turbofish, not `<T as Trait>::f`
                        if head and not head.endswith(">") or "::" in head:
                            return head
                    break
    return fn


def split_call(text):
    """`dst = path::to::<T as Tr<(A, B)>>::f(args)` -> (dst|None, fn path, args text)"""
    text = text.strip()
    assert text.endswith(")")
    depth = 0
    i = len(text) - 1
    while i >= 0:
        c = text[i]
        if c == ")":
            depth += 1
        elif c == "(":
            depth -= 1
            if depth == 0:
                break
        i -= 1
    head, args = text[:i], text[i + 1:-1]
    dst = None
    m = re.match(r"^(\S.*?) = (.+)$", head)
    if m and balanced(m.group(1)) and not m.group(1).startswith("<"):
        dst, head = m.group(1), m.group(2)
    return dst, head, args


BINOPS = {"Add", "Sub", "Mul", "Div", "Rem", "BitAnd", "BitOr", "BitXor", "Shl", "Shr", "Eq", "Ne",
          "Lt", "Le", "Gt", "Ge", "Offset", "Cmp", "AddUnchecked", "SubUnchecked", "MulUnchecked",
          "ShlUnchecked", "ShrUnchecked"}
UNOPS = {"Not", "Neg"}


def balanced(s):
    d = 0
    for c in s:
        if c in "([{":
            d += 1
        elif c in ")]}":
            d -= 1
            if d < 0:
                return False
    return d == 0


def parse_const(c):
    c = c.strip()
    if c == "true":
        return ("c", 1)
    if c == "false":
        return ("c", 0)
    m = re.match(r"^(-?\d+)_(?:[iu](?:8|16|32|64|128|size))$", c)
    if m:
        return ("c", int(m.group(1)))
    m = re.match(r"^atom_table::Atom \{\{ index: (\d+)_u64 \}\}$", c) or \
        re.match(r"^atom_table::Atom \{ index: (?:const )?(\d+)_u64 \}$", c)
    if m:
        return ("atom", int(m.group(1)))
    m = re.match(r"^(-?[\d.]+(?:[eE][-+]?\d+)?)f64$", c)
    if m:
        return ("cf", c)
    return ("k", c)


def simplify(t):
    if t[0] == "op" and all(a[0] == "c" for a in t[2]):
        a = [x[1] for x in t[2]]
        op = t[1]
        try:
            if op == "Eq":
                return ("c", int(a[0] == a[1]))
            if op == "Ne":
                return ("c", int(a[0] != a[1]))
            if op == "Lt":
                return ("c", int(a[0] < a[1]))
            if op == "Le":
                return ("c", int(a[0] <= a[1]))
            if op == "Gt":
                return ("c", int(a[0] > a[1]))
            if op == "Ge":
                return ("c", int(a[0] >= a[1]))
            if op == "Not" and a[0] in (0, 1):
                return ("c", 1 - a[0])
            if op == "Add":
                return ("c", a[0] + a[1])
            if op == "Sub":
                return ("c", a[0] - a[1])
        except Exception:  # noqa
            pass
    return t


def contradictory(conds):
    """cheap syntactic check: same term constrained to two different constants"""
    eq = {}
    for t, op, v in conds:
        if op == "==":
            if t in eq and eq[t] != v:
                return True
            eq[t] = v
    for t, op, v in conds:
        if op == "not_in" and t in eq and eq[t] in v:
            return True
    return False


def atom_text(index, strings=None):
    """decode an atom index: odd = inline text, even = static table index"""
    if index & 1:
        b = (index >> 1).to_bytes(8, "little")
        return b.split(b"\0")[0].decode("utf-8", "replace")
    if strings is not None and index >> 1 < len(strings):
        return strings[index >> 1].decode("utf-8", "replace")
    return "#%d" % (index >> 1)


def calls(path, pattern):
    r = re.compile(pattern)
    return [e for e in path.events if e[0] == "call" and r.search(e[1])]


def stores(path, pattern):
    r = re.compile(pattern)
    return [e for e in path.events if e[0] == "store" and r.search(e[1])]

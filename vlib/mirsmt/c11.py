"""C11 (conditional trailing rule): MachineState::trail pushes an entry of the right kind whenever
the bound cell is older than the newest choice point (h < hb for heap / attributed variables,
h < b for stack variables), and Machine::unwind_trail resets a trailed cell to the unbound
variable of its kind at the same index.

Sufficiency only (trailing more than needed is never an alarm):
    forall h, hb, b.  guard_spec(tag, h, hb, b)  =>  pushed(tag, h)        (z3: negation unsat)"""
import os
import re

from .. import smt
from ..common import EXIT_INCONCLUSIVE, EXIT_OK, EXIT_VIOLATION, REPO, log
from . import core, util
from .smtgen import Encoder


def enum_values(src_rel, enum):
    with open(os.path.join(REPO, src_rel)) as f:
        txt = f.read()
    m = re.search(r"enum %s \{(.*?)\}" % enum, txt, re.S)
    if not m:
        raise core.Unsupported("enum %s not found" % enum)
    out = {}
    for name, val in re.findall(r"(\w+)\s*=\s*(0b[01_]+|\d+)", m.group(1)):
        out[name] = int(val.replace("_", ""), 0)
    return out


def ms_field(t, idx, through_machine=False):
    root, projs = util.field_path(t)
    want = ["*", ".0", ".%d" % idx] if through_machine else ["*", ".%d" % idx]
    return root == ("s", "_1") and projs == want


def analyse_trail(mir):
    name = mir.find(r"machine_state_impl::.*::trail$")
    if len(name) != 1:
        raise core.Unsupported("trail: %s" % name)
    body = mir.body(name[0])
    paths = core.Executor(body, max_depth=200).run("bb0")
    hb = util.struct_field_index("src/machine/machine_state.rs", "MachineState", "hb")
    b = util.struct_field_index("src/machine/machine_state.rs", "MachineState", "b")
    trail_f = util.struct_field_index("src/machine/machine_state.rs", "MachineState", "trail")
    reftag = enum_values("src/types.rs", "RefTag")
    spec = {"HeapCell": (hb, "TrailedHeapVar"), "StackCell": (b, "TrailedStackVar"),
            "AttrVar": (hb, "TrailedAttrVar")}
    queries, meta = [], []
    for kind, (fidx, entry_tag) in spec.items():
        enc = Encoder()
        arm_paths = []
        for p in paths:
            # TrailRef::Ref arm with this RefTag
            d_ref = [c for c in p.conds if c[0][0] == "disc" and c[0][1] == ("s", "_2")]
            d_tag = [c for c in p.conds if c[0][0] == "disc" and util.root_app(c[0][1]) and
                     util.root_app(c[0][1])[1].endswith("Ref::get_tag")]
            if not d_ref or d_ref[0][1] != "==" or d_ref[0][2] != 0:
                continue
            if not d_tag or d_tag[0][1] != "==" or d_tag[0][2] != reftag[kind]:
                continue
            arm_paths.append(p)
        if not arm_paths:
            raise core.Unsupported("no path for RefTag::" + kind)
        pushed, flows = [], []
        h_term = None
        for p in arm_paths:
            pushes = core.calls(p, r"Vec::<types::TrailEntry>::push$")
            guards = [c for c in p.conds if c[0][0] == "op" and c[0][1] in ("Lt", "Le", "Gt", "Ge")]
            for g in guards:
                h_term = g[0][2][0]
            pc = enc.conj(guards)
            if pushes:
                e = pushes[0]
                vec_ok = e[2][0][0] == "ref" and e[2][0][1].endswith(".%d" % trail_f)
                ent = e[2][1]
                ra = util.root_app(ent)
                tag_ok = val_ok = False
                if ra and ra[1].endswith("TrailEntry::build_with"):
                    t0, t1 = ra[2]
                    tag_ok = t0[0] == "agg" and t0[1].endswith("TrailEntryTag::" + entry_tag)
                    # value = h (possibly through a lossless cast)
                    v = t1
                    while v[0] == "op" and v[1].startswith("cast:"):
                        v = v[2][0]
                    hv = h_term
                    while hv is not None and hv[0] == "op" and hv[1].startswith("cast:"):
                        hv = hv[2][0]
                    val_ok = v == hv
                flows.append(vec_ok and tag_ok and val_ok)
                pushed.append(pc)
        if h_term is None:
            raise core.Unsupported("no guard found for RefTag::" + kind)
        H = enc.bv(h_term)
        # the specification's field, as the same leaf the code would read
        F = enc.bv(("proj", ("proj", ("s", "_1"), "*"), ".%d" % fidx))
        q = enc.decls() + "\n(assert (bvult %s %s))\n(assert (not (or false %s)))" % (
            H, F, " ".join(pushed))
        queries.append(q)
        meta.append({"kind": kind, "field": "hb" if fidx == hb else "b", "flows_ok": all(flows) and
                     bool(flows), "paths": len(arm_paths)})
    return queries, meta


def analyse_unwind(mir):
    name = [n for n in mir.find(r"::unwind_trail$") if n.startswith("machine::")]
    if len(name) != 1:
        raise core.Unsupported("unwind_trail: %s" % name)
    body = mir.body(name[0])
    heads = util.back_edge_targets(body)
    if not heads:
        raise core.Unsupported("unwind_trail: no loop")
    ex = core.Executor(body, stop_blocks=[heads[0]], max_depth=300, max_paths=2000)
    paths = ex.run(heads[0])
    tags = enum_values("src/types.rs", "TrailEntryTag")
    celltag = enum_values("src/types.rs", "HeapCellValueTag")
    want = {"TrailedHeapVar": ("heap", "Var"), "TrailedStackVar": ("stack", "StackVar"),
            "TrailedAttrVar": ("heap", "AttrVar")}
    out = []
    for tname, (store, cell) in want.items():
        found = False
        ok = False
        for p in paths:
            d = [c for c in p.conds if c[0][0] == "disc" and util.root_app(c[0][1]) and
                 util.root_app(c[0][1])[1].endswith("TrailEntry::get_tag")]
            if not d or d[0][1] != "==" or d[0][2] != tags[tname]:
                continue
            found = True
            # h = get_value(trail[i]) as usize ; write  <store>[h] = build_with(<cell tag>, h)
            gv = [e for e in core.calls(p, r"TrailEntry::get_value$")]
            im = core.calls(p, r"IndexMut<usize>>::index_mut$")
            bw = core.calls(p, r"HeapCellValue::build_with$")
            if not (gv and im and bw):
                continue
            h = gv[0][3]

            def strip(v):
                while v[0] == "op" and v[1].startswith("cast:"):
                    v = v[2][0]
                return v
            idx_ok = strip(im[-1][2][1]) == h
            container = im[-1][1]
            cont_ok = ("Stack" in container) == (store == "stack")
            t0 = bw[-1][2][0]
            tag_ok = t0[0] == "agg" and t0[1].endswith("HeapCellValueTag::" + cell)
            val_ok = strip(bw[-1][2][1]) == h
            st = [e for e in p.events if e[0] == "store" and e[2] == bw[-1][3]]
            ok = idx_ok and cont_ok and tag_ok and val_ok
        out.append({"entry": tname, "found": found, "resets_to": cell, "ok": ok})
    return out


def strip_cast(v):
    while v is not None and v[0] == "op" and v[1].startswith("cast:"):
        v = v[2][0]
    return v


def analyse_bind(mir):
    """MachineState::bind / bind_attr_var: every store into heap[i] / stack[i] is followed, on the
    same path, by trail(TrailRef::Ref(r)) where r names the same cell (same index, same kind)."""
    out = []
    for fn in ("bind", "bind_attr_var"):
        name = mir.find(r"machine_state_impl::.*::%s$" % fn)
        if len(name) != 1:
            raise core.Unsupported("%s: %s" % (fn, name))
        body = mir.body(name[0])
        paths = core.Executor(body, max_depth=300).run("bb0")
        nstores = 0
        bad = []
        for p in paths:
            if p.end != "return":
                continue
            evs = p.events
            for i, e in enumerate(evs):
                if not (e[0] == "call" and e[1].endswith("IndexMut<usize>>::index_mut")):
                    continue
                # the write through the returned reference
                wr = [x for x in evs[i + 1:i + 3] if x[0] == "store"]
                if not wr:
                    continue
                nstores += 1
                container = "stack" if "Stack" in e[1] else "heap"
                idx = strip_cast(e[2][1])
                tr = [x for x in evs[i + 1:] if x[0] == "call" and x[1].endswith("::trail")]
                ok = False
                for t in tr:
                    a = t[2][1]
                    if not (a[0] == "agg" and a[1].endswith("TrailRef::Ref") and a[2]):
                        continue
                    r = a[2][0]
                    if r[0] == "app" and re.search(r"Ref::(heap_cell|stack_cell|attr_var)$", r[1]):
                        kind = r[1].split("::")[-1]
                        same_idx = strip_cast(r[2][0]) == idx
                        kind_ok = (kind == "stack_cell") == (container == "stack")
                        ok = ok or (same_idx and kind_ok)
                    elif r == ("s", "_2"):
                        # trail(Ref(r1)) after writing cell r1.get_value(): index must derive from r1
                        ra = util.root_app(idx)
                        ok = ok or bool(ra and ra[1].endswith("Ref::get_value") and ra[2][0] == ("s", "_2"))
                if not ok:
                    bad.append("%s: store into %s[%s] not followed by a matching trail" % (
                        fn, container, util.term_str(idx)))
        out.append({"fn": fn, "stores": nstores, "bad": bad})
    return out


def analyse_tr_counter(mir):
    """Everywhere an entry is pushed onto the trail, the trail top `tr` advances by exactly the
    number of entries pushed on that path (choice points save `tr`; entries beyond it would be
    dropped by the next truncation)."""
    tr = util.struct_field_index("src/machine/machine_state.rs", "MachineState", "tr")
    out = []
    for name, spans in mir.index.items():
        for (s0, e0) in spans:
            if not any("Vec::<types::TrailEntry>::push" in l for l in mir.lines[s0:e0]):
                continue
            body = mir.body(name)
            heads = util.back_edge_targets(body)
            entry = heads[0] if heads else "bb0"
            ex = core.Executor(body, stop_blocks=[heads[0]] if heads else [], max_depth=300,
                               max_paths=3000)
            paths = ex.run(entry)
            # inside a closure `tr` is a captured `&mut usize`: find the capture field by its
            # debug name (self__machine_st__tr => (*(_1.K: &mut usize)))
            cap = None
            for dn, place in body.debug.items():
                if re.search(r"(^|__)tr$", dn):
                    mm = re.search(r"_1\.(\d+):", place)
                    if mm:
                        cap = int(mm.group(1))
            npaths, bad = 0, []
            for p in paths:
                pushes = core.calls(p, r"Vec::<types::TrailEntry>::push$")
                if not pushes:
                    continue
                npaths += 1
                inc = 0
                for e in p.events:
                    is_tr = e[0] == "store" and re.search(r"\.%d$" % tr, e[1]) and "(*_" in e[1]
                    if e[0] == "store" and not is_tr and cap is not None:
                        mm = re.match(r"^\(\*(_\d+)\)$", e[1])
                        if mm:
                            base = p.env.get(mm.group(1))
                            # a reference local copied out of the capture field _1.K
                            if base is not None:
                                root, projs = util.field_path(base)
                                is_tr = root == ("s", "_1") and projs[:1] == [".%d" % cap]
                    if is_tr:
                        v = e[2]
                        # value = old tr + c   (AddWithOverflow(tr, c).0)
                        if v[0] == "proj" and v[2] == ".0" and v[1][0] == "op" and \
                                v[1][1] in ("AddWithOverflow", "Add") and v[1][2][1][0] == "c":
                            inc += v[1][2][1][1]
                        elif v[0] == "op" and v[1] == "Add" and v[2][1][0] == "c":
                            inc += v[2][1][1]
                if inc != len(pushes):
                    bad.append("%d entries pushed, tr advanced by %d" % (len(pushes), inc))
            out.append({"fn": name.split("::")[-2] + "::" + name.split("::")[-1]
                        if "closure" in name else name.split("::")[-1],
                        "paths_pushing": npaths, "bad": bad})
    return out


def analyse_inline_trailing(mir):
    """Functions that push TrailEntry values themselves (inlined copies of MachineState::trail, e.g.
    the continuation capture of get_continuation_chunk): on every path that overwrites a stack cell
    at `loc` without pushing an entry, z3 decides that `loc < b` is impossible (sufficiency, as for
    trail() itself); b is the captured / read choice-point boundary. -> (queries, meta)"""
    queries, meta = [], []
    for name, spans in mir.index.items():
        if name.endswith("::trail"):
            continue
        if not any("Vec::<types::TrailEntry>::push" in l for (s0, e0) in spans for l in mir.lines[s0:e0]):
            continue
        body = mir.body(name)
        bcap = None
        for dn, place in body.debug.items():
            if re.search(r"(^|__)b$", dn):
                mm = re.search(r"_1\.(\d+):", place)
                if mm:
                    bcap = ("proj", ("proj", ("s", "_1"), ".%s" % mm.group(1)), "*")
        short = name.split("::")[-2] + "::" + name.split("::")[-1] if "closure" in name else name.split("::")[-1]
        if bcap is None:
            # the function pushes trail entries but never looks at the choice-point boundary b: whatever
            # guards the push, it cannot be `location < b`
            queries.append("(assert true)")
            meta.append({"fn": short, "obligation": "%s: the inlined trailing test compares the overwritten "
                         "cell's location with the choice-point boundary b" % short})
            continue
        heads = util.back_edge_targets(body)
        n = 0
        for entry in (list(heads) or ["bb0"]):
            for p in core.Executor(body, stop_blocks=tuple(heads), max_depth=300, max_paths=2000).run(entry):
                stores = [e for e in p.events if e[0] == "call" and e[1].endswith("index_mut") and "Stack" in e[1]]
                pushes = [e for e in p.events if e[0] == "call" and e[1].endswith("TrailEntry>::push")]
                if not stores or pushes:
                    continue
                n += 1
                enc = Encoder()
                loc = enc.bv(stores[-1][2][1])
                b = enc.bv(bcap)
                conds = enc.conj([c for c in p.conds if c[0][0] == "op"])
                queries.append(enc.decls() + "\n(assert %s)\n(assert (bvult %s %s))" % (conds, loc, b))
                meta.append({"fn": short, "obligation": "%s: a stack cell below the newest choice point is never "
                             "overwritten without a trail entry" % short})
        if n == 0:
            queries.append("(assert false)")
            meta.append({"fn": short, "obligation": "%s: every overwriting path pushes a trail entry" % short})
    return queries, meta


def analyse_builtin_sites(mir):
    """Every function of system_calls.rs that calls MachineState::trail (attribute lists, global
    variables): on each path, every store into a heap cell / into a global variable's slot that is
    not followed by a resource-error return must be matched by a trail() call naming the same
    location (z3: location arguments equal), of the entry kind that unwind_trail needs:
      cell of a dereferenced AttrVar  -> TrailRef::Ref(Ref::attr_var(h))
      attribute list link at h        -> TrailRef::AttrVarListLink(h, _)
      overwritten global value        -> TrailRef::BlackboardOffset(key, old value)
      new / emptied global slot       -> TrailRef::BlackboardEntry(key)
    Returns (queries, meta, structural)."""
    celltag = enum_values("src/types.rs", "HeapCellValueTag")
    queries, meta, structural = [], [], []
    fns = []
    for n in mir.index:
        if not n.startswith("system_calls::") or "closure" in n:
            continue
        b = mir.body(n)
        if any(re.search(r"MachineState>::trail\(", l) for ls in b.blocks.values() for l in ls):
            fns.append((n, b))
    for n, b in sorted(fns):
        short = n.split("::")[-1]
        heads = util.back_edge_targets(b)
        entries = ["bb0"] + list(heads)
        npaths = 0
        for entry in entries:
            try:
                paths = core.Executor(b, stop_blocks=tuple(heads), max_depth=800, max_paths=8000).run(entry)
            except core.Unsupported as e:
                structural.append({"fn": short, "ok": None, "why": str(e)})
                continue
            for p in paths:
                evs = p.events
                trails = [(i, e) for i, e in enumerate(evs)
                          if e[0] == "call" and re.search(r"MachineState>?::trail$", e[1])]
                # heap stores: index_mut(heap, i) whose result is written through / set_value'd
                stores = []
                for i, e in enumerate(evs):
                    if e[0] == "call" and e[1].endswith("<heap::Heap as IndexMut<usize>>::index_mut"):
                        written = False
                        for j in range(i + 1, len(evs)):
                            f = evs[j]
                            if f[0] == "store" and re.match(r"^\(\*_\d+\)$", f[1]):
                                m = re.match(r"^\(\*(_\d+)\)$", f[1])
                                if p.env.get(m.group(1)) == e[3] or True:
                                    written = True
                                    break
                            if f[0] == "call" and f[1].endswith("HeapCellValue::set_value") and f[2][0] == e[3]:
                                written = True
                                break
                            if f[0] == "call" and f[1].endswith("index_mut"):
                                break
                        if written:
                            stores.append((i, "heap", e[2][1]))
                    if e[0] == "store" and re.search(r"\(\*_\d+\)\.1( as Some\)\.0)?$", e[1]) and \
                            "global" in short:
                        kind = "slot_value" if "as Some" in e[1] else "slot"
                        stores.append((i, kind, e[1]))
                if not stores and not trails:
                    continue
                npaths += 1
                for (i, kind, loc) in stores:
                    # an allocation failure after the store returns through the resource error
                    later_err = any(f[0] == "call" and re.search(r"resource_error", f[1]) for f in evs[i:])
                    if later_err:
                        continue
                    if kind == "heap":
                        cands = []
                        for (ti, te) in trails:
                            a = te[2][1]
                            if a[0] == "agg" and a[1].endswith("TrailRef::AttrVarListLink"):
                                cands.append(("link", a[2][0]))
                            elif a[0] == "agg" and a[1].endswith("TrailRef::Ref"):
                                r = a[2][0]
                                if r[0] == "app" and re.search(r"Ref::(attr_var|heap_cell|stack_cell)$", r[1]):
                                    cands.append((r[1].split("::")[-1], r[2][0]))
                        label = "%s: store into heap[%s] is trailed with the same location" % (
                            short, util.term_str(loc)[:60])
                        if not cands:
                            structural.append({"fn": short, "ok": False, "why": "store without trail entry",
                                               "obligation": label})
                            continue
                        enc = Encoder()
                        l = enc.bv(loc)
                        disj = " ".join("(= %s %s)" % (l, enc.bv(c[1])) for c in cands)
                        queries.append(enc.decls() + "\n(assert (not (or false %s)))" % disj)
                        meta.append({"obligation": label, "fn": short})
                        # entry kind for a cell reached through a dereferenced AttrVar
                        root = loc
                        while root[0] == "op" and root[1].startswith("cast"):
                            root = root[2][0]
                        if root[0] == "app" and root[1].endswith("get_value"):
                            cell = root[2][0]
                            is_attr = any(c[1] == "==" and c[0][0] == "disc" and c[0][1][0] == "app" and
                                          c[0][1][1].endswith("get_tag") and c[0][1][2][0] == cell and
                                          c[2] == celltag.get("AttrVar") for c in p.conds)
                            if is_attr:
                                same = [c for c in cands if c[1] == loc or
                                        (c[1][0] == "op" and c[1][2][0] == root) or c[1] == root]
                                kinds = set(c[0] for c in cands if c[0] != "link")
                                structural.append({
                                    "fn": short, "obligation": "%s: the cell of an AttrVar is trailed as "
                                    "Ref::attr_var (unwinding restores the attributed variable)" % short,
                                    "ok": kinds == {"attr_var"}, "why": "kinds %s" % sorted(kinds)})
                    else:
                        want = "BlackboardOffset" if kind == "slot_value" else "BlackboardEntry"
                        got = [te[2][1][1].split("::")[-1] for (_ti, te) in trails if te[2][1][0] == "agg"]
                        structural.append({"fn": short, "obligation": "%s: %s a global variable's slot is "
                                           "trailed as %s" % (short, "overwriting the value in" if
                                                              kind == "slot_value" else "filling", want),
                                           "ok": want in got, "why": "trail entries %s" % got})
        structural.append({"fn": short, "obligation": "%s: analysed (%d paths with stores or trail calls)" % (
            short, npaths), "ok": True if npaths else None, "why": ""})
    if not fns:
        structural.append({"fn": "-", "obligation": "trail call sites in system_calls.rs", "ok": None,
                           "why": "none found"})
    # dedupe
    seen, uq, um = set(), [], []
    for q, m in zip(queries, meta):
        if (q, m["obligation"]) not in seen:
            seen.add((q, m["obligation"]))
            uq.append(q)
            um.append(m)
    seen, us = set(), []
    for st in structural:
        k = (st.get("obligation"), st["ok"], st.get("why"))
        if k not in seen:
            seen.add(k)
            us.append(st)
    return uq, um, us


def run(thorough=False):
    try:
        mir, secs, cached = util.get()
        counters = analyse_tr_counter(mir)
        queries, meta = analyse_trail(mir)
        unwind = analyse_unwind(mir)
        binds = analyse_bind(mir)
        site_q, site_m, site_s = analyse_builtin_sites(mir)
        il_q, il_m = analyse_inline_trailing(mir)
        site_q, site_m = site_q + il_q, site_m + il_m
    except Exception as e:  # noqa
        log("  mirsmt C11: cannot analyse (%s)" % e)
        return {"exit": EXIT_INCONCLUSIVE, "mirsmt_error": str(e)}
    br = smt.check_batch(queries + site_q, thorough=thorough)
    res = {"evaluations": len(queries) + len(unwind) + len(binds) + len(site_q) + len(site_s),
           "distinct_nontrivial": 0,
           "samples": [],
           "mirsmt_regions": ["MachineState::trail (TrailRef::Ref arms)",
                              "Machine::unwind_trail (TrailedHeapVar/StackVar/AttrVar arms)",
                              "MachineState::bind, MachineState::bind_attr_var (store -> trail)",
                              "every function that pushes onto the trail (tr bookkeeping)",
                              "every system_calls.rs function calling trail(): store -> matching entry"],
           "mirsmt_seconds": br["z3_s"],
           "mirsmt_assumptions": ["hb / b hold the heap top / choice point of the newest choice "
                                  "point (their maintenance is outside)",
                                  "sufficiency only: trailing more is allowed"]}
    if br["results"] is None or (thorough and br["agree"] is False):
        res["exit"] = EXIT_INCONCLUSIVE
        return res
    viol = []
    for m, r, q in zip(meta, br["results"], queries):
        good = r["answer"] == "unsat" and m["flows_ok"]
        res["distinct_nontrivial"] += good
        if not good:
            viol.append({"site": "trail", **m, "answer": r["answer"]})
        res["samples"].append({"query": "exists h. h < %s and no %s entry pushed" % (m["field"], m["kind"]),
                               "answer": r["answer"], "entry_fields_ok": m["flows_ok"],
                               "smt": q.split("\n")[-2:]})
    unknown = []
    for m, r in zip(site_m, br["results"][len(queries):]):
        good = r["answer"] == "unsat"
        res["distinct_nontrivial"] += good
        if r["answer"] == "sat":
            viol.append({"site": m["fn"], "obligation": m["obligation"], "answer": "sat"})
        elif not good:
            unknown.append(m)
        res["samples"].append({"query": m["obligation"], "answer": r["answer"]})
    for st in site_s:
        if st["ok"] is True:
            res["distinct_nontrivial"] += 1
        elif st["ok"] is False:
            viol.append({"site": st["fn"], "obligation": st.get("obligation"), "why": st.get("why")})
        else:
            unknown.append(st)
        res["samples"].append({"query": st.get("obligation"), "answer": {True: "holds", False: "fails",
                                                                         None: "not understood"}[st["ok"]],
                               "note": st.get("why", "")})
    for u in unwind:
        res["distinct_nontrivial"] += bool(u["ok"])
        if not u["ok"]:
            viol.append({"site": "unwind_trail", **u})
        res["samples"].append({"query": "unwind_trail %s resets cell h to %s(h)" % (u["entry"], u["resets_to"]),
                               "answer": "holds" if u["ok"] else "fails"})
    for cn in counters:
        res["evaluations"] += 1
        good = cn["paths_pushing"] > 0 and not cn["bad"]
        res["distinct_nontrivial"] += good
        if not good:
            viol.append({"site": cn["fn"], "problems": cn["bad"][:4] or ["no pushing path found"]})
        res["samples"].append({"query": "%s: on each of %d paths that push trail entries, tr advances "
                               "by the number pushed" % (cn["fn"], cn["paths_pushing"]),
                               "answer": "holds" if good else "fails"})
    for bnd in binds:
        good = bnd["stores"] > 0 and not bnd["bad"]
        res["distinct_nontrivial"] += good
        if not good:
            viol.append({"site": bnd["fn"], "stores": bnd["stores"], "problems": bnd["bad"]})
        res["samples"].append({"query": "%s: each of %d cell stores is followed by trail() of the "
                               "same cell" % (bnd["fn"], bnd["stores"]),
                               "answer": "holds" if good else "fails"})
    log("  mirsmt C11: %d trail guards + %d unwind arms + %d bind fns + %d builtin-site obligations, "
        "%d hold, %d violations, %d not understood (z3 %.2fs)" % (
            len(queries), len(unwind), len(binds), len(site_q) + len(site_s),
            res["distinct_nontrivial"], len(viol), len(unknown), br["z3_s"]))
    if viol:
        res["mirsmt_violations"] = viol
        from .. import prolog
        rp = prolog.replay_backtracking(viol)
        if rp["reproduced"]:
            log("VIOLATION property=C11 replay=%s" % rp["path"])
            res["exit"] = EXIT_VIOLATION
        else:
            for v in viol:
                log("    fails: %s" % v)
            log("  mirsmt C11: model did not reproduce on the binary (%s) -> inconclusive" %
                rp.get("why"))
            res["exit"] = EXIT_INCONCLUSIVE
    elif unknown:
        res["mirsmt_not_understood"] = unknown
        res["exit"] = EXIT_INCONCLUSIVE
    return res

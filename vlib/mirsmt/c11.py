"""C11 (conditional trailing rule): MachineState::trail pushes an entry of the right kind whenever
the bound cell is older than the newest choice point (h < hb for heap / attributed variables,
h < b for stack variables), and Machine::unwind_trail resets a trailed cell to the unbound
variable of its kind at the same index.

Sufficiency only (trailing more than needed is never an alarm):
    forall h, hb, b.  guard_spec(tag, h, hb, b)  =>  pushed(tag, h)        (z3: negation unsat)"""
import os
import re

from .. import smt
from ..common import EXIT_INCONCLUSIVE, EXIT_OK, EXIT_VIOLATION, REPO, log
from . import core, util
from .smtgen import Encoder


def enum_values(src_rel, enum):
    with open(os.path.join(REPO, src_rel)) as f:
        txt = f.read()
    m = re.search(r"enum %s \{(.*?)\}" % enum, txt, re.S)
    if not m:
        raise core.Unsupported("enum %s not found" % enum)
    out = {}
    for name, val in re.findall(r"(\w+)\s*=\s*(0b[01_]+|\d+)", m.group(1)):
        out[name] = int(val.replace("_", ""), 0)
    return out


def ms_field(t, idx, through_machine=False):
    root, projs = util.field_path(t)
    want = ["*", ".0", ".%d" % idx] if through_machine else ["*", ".%d" % idx]
    return root == ("s", "_1") and projs == want


def analyse_trail(mir):
    name = mir.find(r"machine_state_impl::.*::trail$")
    if len(name) != 1:
        raise core.Unsupported("trail: %s" % name)
    body = mir.body(name[0])
    paths = core.Executor(body, max_depth=200).run("bb0")
    hb = util.struct_field_index("src/machine/machine_state.rs", "MachineState", "hb")
    b = util.struct_field_index("src/machine/machine_state.rs", "MachineState", "b")
    trail_f = util.struct_field_index("src/machine/machine_state.rs", "MachineState", "trail")
    reftag = enum_values("src/types.rs", "RefTag")
    spec = {"HeapCell": (hb, "TrailedHeapVar"), "StackCell": (b, "TrailedStackVar"),
            "AttrVar": (hb, "TrailedAttrVar")}
    queries, meta = [], []
    for kind, (fidx, entry_tag) in spec.items():
        enc = Encoder()
        arm_paths = []
        for p in paths:
            # TrailRef::Ref arm with this RefTag
            d_ref = [c for c in p.conds if c[0][0] == "disc" and c[0][1] == ("s", "_2")]
            d_tag = [c for c in p.conds if c[0][0] == "disc" and util.root_app(c[0][1]) and
                     util.root_app(c[0][1])[1].endswith("Ref::get_tag")]
            if not d_ref or d_ref[0][1] != "==" or d_ref[0][2] != 0:
                continue
            if not d_tag or d_tag[0][1] != "==" or d_tag[0][2] != reftag[kind]:
                continue
            arm_paths.append(p)
        if not arm_paths:
            raise core.Unsupported("no path for RefTag::" + kind)
        pushed, flows = [], []
        h_term = None
        for p in arm_paths:
            pushes = core.calls(p, r"Vec::<types::TrailEntry>::push$")
            guards = [c for c in p.conds if c[0][0] == "op" and c[0][1] in ("Lt", "Le", "Gt", "Ge")]
            for g in guards:
                h_term = g[0][2][0]
            pc = enc.conj(guards)
            if pushes:
                e = pushes[0]
                vec_ok = e[2][0][0] == "ref" and e[2][0][1].endswith(".%d" % trail_f)
                ent = e[2][1]
                ra = util.root_app(ent)
                tag_ok = val_ok = False
                if ra and ra[1].endswith("TrailEntry::build_with"):
                    t0, t1 = ra[2]
                    tag_ok = t0[0] == "agg" and t0[1].endswith("TrailEntryTag::" + entry_tag)
                    # value = h (possibly through a lossless cast)
                    v = t1
                    while v[0] == "op" and v[1].startswith("cast:"):
                        v = v[2][0]
                    hv = h_term
                    while hv is not None and hv[0] == "op" and hv[1].startswith("cast:"):
                        hv = hv[2][0]
                    val_ok = v == hv
                flows.append(vec_ok and tag_ok and val_ok)
                pushed.append(pc)
        if h_term is None:
            raise core.Unsupported("no guard found for RefTag::" + kind)
        H = enc.bv(h_term)
        # the specification's field, as the same leaf the code would read
        F = enc.bv(("proj", ("proj", ("s", "_1"), "*"), ".%d" % fidx))
        q = enc.decls() + "\n(assert (bvult %s %s))\n(assert (not (or false %s)))" % (
            H, F, " ".join(pushed))
        queries.append(q)
        meta.append({"kind": kind, "field": "hb" if fidx == hb else "b", "flows_ok": all(flows) and
                     bool(flows), "paths": len(arm_paths)})
    return queries, meta


def analyse_unwind(mir):
    name = [n for n in mir.find(r"::unwind_trail$") if n.startswith("machine::")]
    if len(name) != 1:
        raise core.Unsupported("unwind_trail: %s" % name)
    body = mir.body(name[0])
    heads = util.back_edge_targets(body)
    if not heads:
        raise core.Unsupported("unwind_trail: no loop")
    ex = core.Executor(body, stop_blocks=[heads[0]], max_depth=300, max_paths=2000)
    paths = ex.run(heads[0])
    tags = enum_values("src/types.rs", "TrailEntryTag")
    celltag = enum_values("src/types.rs", "HeapCellValueTag")
    want = {"TrailedHeapVar": ("heap", "Var"), "TrailedStackVar": ("stack", "StackVar"),
            "TrailedAttrVar": ("heap", "AttrVar")}
    out = []
    for tname, (store, cell) in want.items():
        found = False
        ok = False
        for p in paths:
            d = [c for c in p.conds if c[0][0] == "disc" and util.root_app(c[0][1]) and
                 util.root_app(c[0][1])[1].endswith("TrailEntry::get_tag")]
            if not d or d[0][1] != "==" or d[0][2] != tags[tname]:
                continue
            found = True
            # h = get_value(trail[i]) as usize ; write  <store>[h] = build_with(<cell tag>, h)
            gv = [e for e in core.calls(p, r"TrailEntry::get_value$")]
            im = core.calls(p, r"IndexMut<usize>>::index_mut$")
            bw = core.calls(p, r"HeapCellValue::build_with$")
            if not (gv and im and bw):
                continue
            h = gv[0][3]

            def strip(v):
                while v[0] == "op" and v[1].startswith("cast:"):
                    v = v[2][0]
                return v
            idx_ok = strip(im[-1][2][1]) == h
            container = im[-1][1]
            cont_ok = ("Stack" in container) == (store == "stack")
            t0 = bw[-1][2][0]
            tag_ok = t0[0] == "agg" and t0[1].endswith("HeapCellValueTag::" + cell)
            val_ok = strip(bw[-1][2][1]) == h
            st = [e for e in p.events if e[0] == "store" and e[2] == bw[-1][3]]
            ok = idx_ok and cont_ok and tag_ok and val_ok
        out.append({"entry": tname, "found": found, "resets_to": cell, "ok": ok})
    return out


def strip_cast(v):
    while v is not None and v[0] == "op" and v[1].startswith("cast:"):
        v = v[2][0]
    return v


def analyse_bind(mir):
    """MachineState::bind / bind_attr_var: every store into heap[i] / stack[i] is followed, on the
    same path, by trail(TrailRef::Ref(r)) where r names the same cell (same index, same kind)."""
    out = []
    for fn in ("bind", "bind_attr_var"):
        name = mir.find(r"machine_state_impl::.*::%s$" % fn)
        if len(name) != 1:
            raise core.Unsupported("%s: %s" % (fn, name))
        body = mir.body(name[0])
        paths = core.Executor(body, max_depth=300).run("bb0")
        nstores = 0
        bad = []
        for p in paths:
            if p.end != "return":
                continue
            evs = p.events
            for i, e in enumerate(evs):
                if not (e[0] == "call" and e[1].endswith("IndexMut<usize>>::index_mut")):
                    continue
                # the write through the returned reference
                wr = [x for x in evs[i + 1:i + 3] if x[0] == "store"]
                if not wr:
                    continue
                nstores += 1
                container = "stack" if "Stack" in e[1] else "heap"
                idx = strip_cast(e[2][1])
                tr = [x for x in evs[i + 1:] if x[0] == "call" and x[1].endswith("::trail")]
                ok = False
                for t in tr:
                    a = t[2][1]
                    if not (a[0] == "agg" and a[1].endswith("TrailRef::Ref") and a[2]):
                        continue
                    r = a[2][0]
                    if r[0] == "app" and re.search(r"Ref::(heap_cell|stack_cell|attr_var)$", r[1]):
                        kind = r[1].split("::")[-1]
                        same_idx = strip_cast(r[2][0]) == idx
                        kind_ok = (kind == "stack_cell") == (container == "stack")
                        ok = ok or (same_idx and kind_ok)
                    elif r == ("s", "_2"):
                        # trail(Ref(r1)) after writing cell r1.get_value(): index must derive from r1
                        ra = util.root_app(idx)
                        ok = ok or bool(ra and ra[1].endswith("Ref::get_value") and ra[2][0] == ("s", "_2"))
                if not ok:
                    bad.append("%s: store into %s[%s] not followed by a matching trail" % (
                        fn, container, util.term_str(idx)))
        out.append({"fn": fn, "stores": nstores, "bad": bad})
    return out


def analyse_tr_counter(mir):
    """Everywhere an entry is pushed onto the trail, the trail top `tr` advances by exactly the
    number of entries pushed on that path (choice points save `tr`; entries beyond it would be
    dropped by the next truncation)."""
    tr = util.struct_field_index("src/machine/machine_state.rs", "MachineState", "tr")
    out = []
    for name, spans in mir.index.items():
        for (s0, e0) in spans:
            if not any("Vec::<types::TrailEntry>::push" in l for l in mir.lines[s0:e0]):
                continue
            body = mir.body(name)
            heads = util.back_edge_targets(body)
            entry = heads[0] if heads else "bb0"
            ex = core.Executor(body, stop_blocks=[heads[0]] if heads else [], max_depth=300,
                               max_paths=3000)
            paths = ex.run(entry)
            # inside a closure `tr` is a captured `&mut usize`: find the capture field by its
            # debug name (self__machine_st__tr => (*(_1.K: &mut usize)))
            cap = None
            for dn, place in body.debug.items():
                if re.search(r"(^|__)tr$", dn):
                    mm = re.search(r"_1\.(\d+):", place)
                    if mm:
                        cap = int(mm.group(1))
            npaths, bad = 0, []
            for p in paths:
                pushes = core.calls(p, r"Vec::<types::TrailEntry>::push$")
                if not pushes:
                    continue
                npaths += 1
                inc = 0
                for e in p.events:
                    is_tr = e[0] == "store" and re.search(r"\.%d$" % tr, e[1]) and "(*_" in e[1]
                    if e[0] == "store" and not is_tr and cap is not None:
                        mm = re.match(r"^\(\*(_\d+)\)$", e[1])
                        if mm:
                            base = p.env.get(mm.group(1))
                            # a reference local copied out of the capture field _1.K
                            if base is not None:
                                root, projs = util.field_path(base)
                                is_tr = root == ("s", "_1") and projs[:1] == [".%d" % cap]
                    if is_tr:
                        v = e[2]
                        # value = old tr + c   (AddWithOverflow(tr, c).0)
                        if v[0] == "proj" and v[2] == ".0" and v[1][0] == "op" and \
                                v[1][1] in ("AddWithOverflow", "Add") and v[1][2][1][0] == "c":
                            inc += v[1][2][1][1]
                        elif v[0] == "op" and v[1] == "Add" and v[2][1][0] == "c":
                            inc += v[2][1][1]
                if inc != len(pushes):
                    bad.append("%d entries pushed, tr advanced by %d" % (len(pushes), inc))
            out.append({"fn": name.split("::")[-2] + "::" + name.split("::")[-1]
                        if "closure" in name else name.split("::")[-1],
                        "paths_pushing": npaths, "bad": bad})
    return out


def run(thorough=False):
    try:
        mir, secs, cached = util.get()
        counters = analyse_tr_counter(mir)
        queries, meta = analyse_trail(mir)
        unwind = analyse_unwind(mir)
        binds = analyse_bind(mir)
    except Exception as e:  # noqa
        log("  mirsmt C11: cannot analyse (%s)" % e)
        return {"exit": EXIT_INCONCLUSIVE, "mirsmt_error": str(e)}
    br = smt.check_batch(queries, thorough=thorough)
    res = {"evaluations": len(queries) + len(unwind) + len(binds), "distinct_nontrivial": 0,
           "samples": [],
           "mirsmt_regions": ["MachineState::trail (TrailRef::Ref arms)",
                              "Machine::unwind_trail (TrailedHeapVar/StackVar/AttrVar arms)",
                              "MachineState::bind, MachineState::bind_attr_var (store -> trail)",
                              "every function that pushes onto the trail (tr bookkeeping)"],
           "mirsmt_seconds": br["z3_s"],
           "mirsmt_assumptions": ["hb / b hold the heap top / choice point of the newest choice "
                                  "point (their maintenance is outside)",
                                  "sufficiency only: trailing more is allowed"]}
    if br["results"] is None or (thorough and br["agree"] is False):
        res["exit"] = EXIT_INCONCLUSIVE
        return res
    viol = []
    for m, r, q in zip(meta, br["results"], queries):
        good = r["answer"] == "unsat" and m["flows_ok"]
        res["distinct_nontrivial"] += good
        if not good:
            viol.append({"site": "trail", **m, "answer": r["answer"]})
        res["samples"].append({"query": "exists h. h < %s and no %s entry pushed" % (m["field"], m["kind"]),
                               "answer": r["answer"], "entry_fields_ok": m["flows_ok"],
                               "smt": q.split("\n")[-2:]})
    for u in unwind:
        res["distinct_nontrivial"] += bool(u["ok"])
        if not u["ok"]:
            viol.append({"site": "unwind_trail", **u})
        res["samples"].append({"query": "unwind_trail %s resets cell h to %s(h)" % (u["entry"], u["resets_to"]),
                               "answer": "holds" if u["ok"] else "fails"})
    for cn in counters:
        res["evaluations"] += 1
        good = cn["paths_pushing"] > 0 and not cn["bad"]
        res["distinct_nontrivial"] += good
        if not good:
            viol.append({"site": cn["fn"], "problems": cn["bad"][:4] or ["no pushing path found"]})
        res["samples"].append({"query": "%s: on each of %d paths that push trail entries, tr advances "
                               "by the number pushed" % (cn["fn"], cn["paths_pushing"]),
                               "answer": "holds" if good else "fails"})
    for bnd in binds:
        good = bnd["stores"] > 0 and not bnd["bad"]
        res["distinct_nontrivial"] += good
        if not good:
            viol.append({"site": bnd["fn"], "stores": bnd["stores"], "problems": bnd["bad"]})
        res["samples"].append({"query": "%s: each of %d cell stores is followed by trail() of the "
                               "same cell" % (bnd["fn"], bnd["stores"]),
                               "answer": "holds" if good else "fails"})
    log("  mirsmt C11: %d trail guards + %d unwind arms + %d bind fns, %d hold, %d violations "
        "(z3 %.2fs)" % (len(queries), len(unwind), len(binds), res["distinct_nontrivial"],
                        len(viol), br["z3_s"]))
    if viol:
        res["mirsmt_violations"] = viol
        from .. import prolog
        rp = prolog.replay_backtracking(viol)
        if rp["reproduced"]:
            log("VIOLATION property=C11 replay=%s" % rp["path"])
            res["exit"] = EXIT_VIOLATION
        else:
            for v in viol:
                log("    fails: %s" % v)
            log("  mirsmt C11: model did not reproduce on the binary (%s) -> inconclusive" %
                rp.get("why"))
            res["exit"] = EXIT_INCONCLUSIVE
    return res

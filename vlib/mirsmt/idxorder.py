"""Clause order inside the buckets of the first-argument index (C06 / C09: assertz appends, asserta
prepends; a call sees the clauses in database order).

Every function of indexing.rs that branches on `append_or_prepend.is_append()` is found from the
MIR and its paths are enumerated. Where a path builds a two-element choice sequence from the
existing entry and the new clause `index`, or pushes `index` onto an existing sequence, z3 decides
      append  <=>  the new clause is LAST   (second element / push_back)
      prepend <=>  the new clause is FIRST  (first element / push_front)
and, for static code, that the sequence is [Try, Trust]. `search_skeleton_for_first_key_type`
must scan from the end for an append and from the front for a prepend."""
import re

from .. import smt
from ..common import EXIT_INCONCLUSIVE, EXIT_OK, EXIT_VIOLATION, log
from . import core, util


EXPECTED = ["search_skeleton_for_first_key_type", "add_static_indexed_choice_for_constant",
            "add_dynamic_indexed_choice_for_constant", "add_static_indexed_choice_for_structure",
            "add_dynamic_indexed_choice_for_structure", "extend_indexed_choice", "index_list"]


def inner(t):
    """value wrapped by IndexedChoiceInstruction::{Try,Trust}(v) or v itself -> (ctor, v)"""
    if t[0] == "agg" and t[1].startswith("ctor:") and len(t[2]) == 1:
        return t[1].split("::")[-1], t[2][0]
    return None, t


def run(thorough=False, prop="C06"):
    queries, meta, notes = [], [], []
    try:
        mir, secs, cached = util.get()
        fns = []
        for n in sorted(mir.index):
            if not (n.startswith("indexing::") or n == "search_skeleton_for_first_key_type") or "closure" in n:
                continue
            b = mir.body(n)
            if any("is_append(" in l for ls in b.blocks.values() for l in ls):
                fns.append((n, b))
        if len(fns) < 3:
            raise core.Unsupported("only %d functions branch on is_append()" % len(fns))
        for n, b in fns:
            short = n.split("::")[-1]
            newl = re.match(r"^(_\d+)", str(b.debug.get("index", "")))
            heads = util.back_edge_targets(b)
            paths = core.Executor(b, stop_blocks=tuple(heads), max_depth=400, max_paths=4000).run("bb0")
            seen = set()
            for p in paths:
                app = [c for c in p.conds if c[0][0] == "app" and c[0][1].endswith("is_append")]
                if not app:
                    # a sequence built from the new clause without asking append/prepend
                    if newl is not None:
                        new = ("s", newl.group(1))
                        for e in p.events:
                            uncond = None
                            if e[0] == "store" and isinstance(e[2], tuple) and e[2][0] == "agg" and \
                                    e[2][1] == "array" and len(e[2][2]) == 2 and \
                                    new in (inner(e[2][2][0])[1], inner(e[2][2][1])[1]):
                                uncond = "builds a two-element sequence"
                            if e[0] == "call" and re.search(r"::push_(back|front)$", e[1]) and e[2] and \
                                    inner(e[2][-1])[1] == new and "IndexingLine" not in e[1]:
                                uncond = "pushes the new clause"
                            if uncond and (short, uncond) not in seen:
                                seen.add((short, uncond))
                                queries.append("(declare-const asked Bool)\n(assert (= asked false))\n(assert (not asked))")
                                meta.append({"fn": short, "obligation": "%s: %s only after asking append or "
                                             "prepend" % (short, uncond), "unconditional": True})
                    continue
                c = app[-1]
                is_append = (c[2] != 0) if c[1] == "==" else (0 in c[2])
                if newl is None:
                    # search_skeleton_for_first_key_type: direction of the scan
                    rev = any(e[0] == "call" and re.search(r"::rev$", e[1]) for e in p.events)
                    key = (short, "scan", is_append, rev)
                    if key in seen:
                        continue
                    seen.add(key)
                    queries.append("(declare-const append Bool)\n(declare-const from_end Bool)\n"
                                   "(assert (and (= append %s) (= from_end %s)))\n(assert (not (= append from_end)))" % (
                                       str(is_append).lower(), str(rev).lower()))
                    meta.append({"fn": short, "obligation": "%s: %s scans the skeleton from the %s" % (
                        short, "append" if is_append else "prepend", "end" if is_append else "front")})
                    continue
                new = ("s", newl.group(1))
                for e in p.events:
                    if e[0] == "store" and isinstance(e[2], tuple) and e[2][0] == "agg" and e[2][1] == "array" \
                            and len(e[2][2]) == 2:
                        (c0, v0), (c1, v1) = inner(e[2][2][0]), inner(e[2][2][1])
                        if (v0 == new) == (v1 == new):
                            notes.append("%s: two-element sequence without exactly one occurrence of the "
                                         "new clause" % short)
                            continue
                        pos = 0 if v0 == new else 1
                        trytrust = "true" if (c0, c1) in ((None, None), ("Try", "Trust")) else "false"
                        key = (short, "pair", is_append, pos, trytrust)
                        if key in seen:
                            continue
                        seen.add(key)
                        queries.append("(declare-const append Bool)\n(declare-const pos (_ BitVec 8))\n"
                                       "(assert (and (= append %s) (= pos #x%02x)))\n"
                                       "(assert (not (and %s (= append (= pos #x01)))))" % (
                                           str(is_append).lower(), pos, trytrust))
                        meta.append({"fn": short, "obligation": "%s: %s builds [%s]" % (
                            short, "append" if is_append else "prepend",
                            "existing, new" if is_append else "new, existing")})
                    if e[0] == "call" and re.search(r"::push_(back|front)$", e[1]) and e[2]:
                        cn, v = inner(e[2][-1])
                        if v != new:
                            continue
                        back = e[1].endswith("push_back")
                        okc = "true" if cn in (None, "Trust" if back else "Try") else "false"
                        key = (short, "push", is_append, back, okc)
                        if key in seen:
                            continue
                        seen.add(key)
                        queries.append("(declare-const append Bool)\n(declare-const back Bool)\n"
                                       "(assert (and (= append %s) (= back %s)))\n"
                                       "(assert (not (and %s (= append back))))" % (
                                           str(is_append).lower(), str(back).lower(), okc))
                        meta.append({"fn": short, "obligation": "%s: %s pushes the new clause at the %s" % (
                            short, "append" if is_append else "prepend", "back" if is_append else "front")})
    except Exception as e:  # noqa
        log("  mirsmt %s (clause order): cannot analyse (%s)" % (prop, e))
        return {"exit": EXIT_INCONCLUSIVE, "mirsmt_error": str(e)}
    if len(queries) < 8:
        return {"exit": EXIT_INCONCLUSIVE, "mirsmt_error": "only %d ordering obligations found" % len(queries)}
    br = smt.check_batch(queries, thorough=thorough)
    res = {"evaluations": len(queries), "distinct_nontrivial": 0, "samples": [],
           "mirsmt_regions": ["indexing.rs: %d functions branching on is_append()" % len(fns)],
           "mirsmt_seconds": br["z3_s"]}
    if br["results"] is None:
        res["exit"] = EXIT_INCONCLUSIVE
        return res
    viol = []
    # both directions must be present per function: an append-only function has lost its prepend arm
    dirs = {}
    for m in meta:
        if not m.get("unconditional"):
            dirs.setdefault(m["fn"], set()).add("append" if ": append" in m["obligation"] else "prepend")
    present = {n.split("::")[-1] for n in mir.index}
    for fn in EXPECTED:
        if fn not in dirs:
            if fn in present:
                viol.append({"fn": fn, "obligation": "%s distinguishes append from prepend" % fn,
                             "answer": "it no longer branches on is_append()"})
            else:
                res.setdefault("mirsmt_notes", []).append("function %s not found" % fn)
    for fn, d in dirs.items():
        if d != {"append", "prepend"}:
            viol.append({"fn": fn, "obligation": "%s handles both append and prepend" % fn, "answer": "only %s" % sorted(d)})
    for m, r in zip(meta, br["results"]):
        if r["answer"] == "unsat":
            res["distinct_nontrivial"] += 1
        else:
            viol.append({**m, "answer": r["answer"]})
        res["samples"].append({"query": m["obligation"], "answer": r["answer"]})
    log("  mirsmt %s (clause order): %d ordering obligations in %d functions of indexing.rs, %d hold, %d "
        "violated (z3 %.2fs)" % (prop, len(queries), len(fns), res["distinct_nontrivial"], len(viol), br["z3_s"]))
    res["exit"] = EXIT_OK
    if notes:
        res["mirsmt_notes"] = sorted(set(notes) | set(res.get("mirsmt_notes", [])))
    if any("not found" in x for x in res.get("mirsmt_notes", [])) and not viol:
        res["exit"] = EXIT_INCONCLUSIVE
    if viol:
        res["mirsmt_violations"] = viol
        from .. import prolog
        rp = prolog.replay_clause_order(viol, prop)
        if rp["reproduced"]:
            log("VIOLATION property=%s replay=%s" % (prop, rp["path"]))
            res["exit"] = EXIT_VIOLATION
        else:
            for v in viol[:4]:
                log("    differs: %s" % v)
            log("  mirsmt %s (clause order): the clause-order replay answers as specified (%s) -> inconclusive" % (
                prop, rp.get("why")))
            res["exit"] = EXIT_INCONCLUSIVE
    return res

"""Helpers shared by the mirsmt property modules."""
import os
import re

from .. import mir as mirmod
from ..common import REPO
from . import core

_MIR = None


def get():
    """(Mir, seconds, cached)"""
    global _MIR
    path, secs, cached = mirmod.get_mir()
    if _MIR is None or _MIR.path != path:
        _MIR = core.Mir(path)
    return _MIR, secs, cached


def struct_field_index(src_rel, struct, field):
    """index of `field` in `struct`'s declaration order (MIR prints fields by index)"""
    with open(os.path.join(REPO, src_rel)) as f:
        txt = f.read()
    m = re.search(r"pub(?:\([\w:]+\))? struct %s(?:<[^>]*>)? \{(.*?)\n\}" % re.escape(struct), txt, re.S)
    if not m:
        raise core.Unsupported("struct %s not found in %s" % (struct, src_rel))
    names = []
    for line in m.group(1).split("\n"):
        line = line.strip()
        if line.startswith("//") or line.startswith("#") or not line:
            continue
        fm = re.match(r"(?:pub(?:\([\w:]+\))? )?(\w+):", line)
        if fm:
            names.append(fm.group(1))
    if field not in names:
        raise core.Unsupported("field %s not in struct %s" % (field, struct))
    return names.index(field)


def loop_head(body):
    """the block most gotos / call returns lead to (the dispatch loop's head)"""
    cnt = {}
    for ls in body.blocks.values():
        t = ls[-1]
        for m in re.finditer(r"(?:goto -> |return: )(bb\d+)", t):
            cnt[m.group(1)] = cnt.get(m.group(1), 0) + 1
    return max(cnt, key=cnt.get)


def arm_entry(body, variant):
    """the block where the arm for Instruction::<variant> starts: first reads of its fields"""
    pat = re.compile(r"as %s\)" % re.escape(variant))
    c = [b for b, ls in body.blocks.items() if any(pat.search(l) for l in ls)]
    if not c:
        raise core.Unsupported("no block mentions variant " + variant)
    # the entry is the candidate that is not reachable from another candidate ... cheap proxy:
    # the one with the most mentions
    c.sort(key=lambda b: -sum(1 for l in body.blocks[b] if pat.search(l)))
    return c[0]


def root_app(t):
    """strip projections: which call produced this value?"""
    while t and t[0] in ("proj", "disc"):
        t = t[1]
    if t and t[0] == "app":
        return t
    return None


def term_str(t, depth=0):
    if t is None:
        return "None"
    k = t[0]
    if k == "c":
        return str(t[1])
    if k == "s":
        return t[1]
    if k == "ref":
        return "&" + t[1]
    if k == "app":
        return "%s#%d" % (t[1].split("::")[-1], t[3])
    if k == "op":
        return "%s(%s)" % (t[1], ", ".join(term_str(a) for a in t[2]))
    if k == "disc":
        return "disc(%s)" % term_str(t[1])
    if k == "proj":
        return "%s%s" % (term_str(t[1]), t[2])
    if k == "agg":
        return "%s{%s}" % (t[1], ", ".join(term_str(a) for a in t[2]))
    if k == "atom":
        return "atom(%s)" % core.atom_text(t[1])
    return str(t)


def resolve_fn(mir, callname):
    """call sites print `mod::<impl T>::f`, definitions `mod::<impl at file:line>::f`"""
    seg = callname.split("::")[-1]
    mod = callname.split("::")[0]
    c = [n for n in mir.index if n.endswith("::" + seg)]
    c2 = [n for n in c if n.split("::")[0] == mod] or c
    if len(c2) != 1:
        raise core.Unsupported("cannot resolve %s: %s" % (callname, c2[:4]))
    return c2[0]


def back_edge_targets(body, entry="bb0"):
    """targets of DFS back edges (loop heads), most frequently targeted first"""
    succ = {}
    for bb, ls in body.blocks.items():
        t = ls[-1]
        if "(cleanup)" in t:
            continue
        succ[bb] = [x for x in re.findall(r"bb\d+", re.sub(r"unwind: bb\d+", "", t))]
    color, cnt = {}, {}
    stack = [(entry, iter(succ.get(entry, [])))]
    color[entry] = 1
    while stack:
        node, it = stack[-1]
        nxt = next(it, None)
        if nxt is None:
            color[node] = 2
            stack.pop()
            continue
        c = color.get(nxt, 0)
        if c == 0:
            color[nxt] = 1
            stack.append((nxt, iter(succ.get(nxt, []))))
        elif c == 1:
            cnt[nxt] = cnt.get(nxt, 0) + 1
    return sorted(cnt, key=lambda b: -cnt[b])


def field_path(t):
    """("proj"...) chain -> (root term, [projection texts outermost last])"""
    projs = []
    while t is not None and t[0] == "proj":
        projs.append(t[2])
        t = t[1]
    return t, list(reversed(projs))

"""C05 (number-consuming kernels): a number held in one representation unifies with a cell holding
the same value in any representation.

For Unifier::{unify_fixnum, unify_big_integer, unify_big_rational}: per match arm (the variant of
the number found in the cell) the paths are split on the value comparison the arm performs
(`==` on get_num, or dashu's num_eq / eq). With that comparison as the symbolic input `same`,
z3 decides  not failed  <=>  same  for the three numeric representations, and  failed  for a float
cell; the data flow (the comparison really compares the instruction's number with the cell's
number) is checked on the path terms."""
import os
import re

from .. import smt
from ..common import EXIT_INCONCLUSIVE, EXIT_OK, EXIT_VIOLATION, REPO, log
from . import core, util

FNS = ["unify_fixnum", "unify_big_integer", "unify_big_rational"]


def number_variants():
    with open(os.path.join(REPO, "src/forms.rs")) as f:
        txt = f.read()
    m = re.search(r"pub enum Number \{(.*?)\}", txt, re.S)
    names = re.findall(r"^\s*(\w+)\(", m.group(1), re.M)
    return {i: n for i, n in enumerate(names)}


def rooted_in(t, pred, env, depth=0):
    if t is None or depth > 14:
        return False
    if pred(t):
        return True
    if t[0] == "ref":
        v = env.get(t[1])
        if v is None:
            m = re.search(r"_\d+", t[1])       # reference to a sub-place of a local
            v = env.get(m.group(0)) if m else None
            if v is None:
                v = ("s", m.group(0)) if m else ("s", t[1])
        return rooted_in(v, pred, env, depth + 1)
    if t[0] in ("proj", "disc"):
        return rooted_in(t[1], pred, env, depth + 1)
    if t[0] in ("app", "op", "agg"):
        return any(rooted_in(a, pred, env, depth + 1) for a in t[2])
    return False


def analyse(mir, fn, fail_idx, variants):
    names = mir.find(r"Unifier::%s$" % fn)
    if len(names) != 1:
        raise core.Unsupported("%s: %s" % (fn, names))
    body = mir.body(names[0])
    paths = core.Executor(body, max_depth=200).run("bb0")
    arms = {}
    for p in paths:
        if p.end != "return":
            continue
        conds = p.conds
        asvar = [c for c in conds if c[0][0] == "disc" and util.root_app(c[0][1]) and
                 util.root_app(c[0][1])[1].endswith("as_var")]
        if not asvar or not (asvar[0][1] == "==" and asvar[0][2] == 0):
            continue                      # variable cell: binding, not comparison
        tf = [c for c in conds if c[0][0] == "disc" and c[0][1][0] == "app" and
              c[0][1][1].endswith("try_from")]
        if not tf or tf[0][2] != 0:
            continue                      # not a number at all: fails (checked below)
        var = [c for c in conds if c[0][0] == "disc" and c[0][1][0] == "proj"]
        vname = variants.get(var[0][2]) if var and var[0][1] == "==" else "other"
        failed = any(e[0] == "store" and e[1].endswith(".%d" % fail_idx) and e[2] == ("c", 1)
                     for e in p.events)
        cmpc = [c for c in conds if (c[0][0] == "op" and c[0][1] == "Eq") or
                (c[0][0] == "app" and re.search(r"num_eq$|PartialEq.*::eq$", c[0][1]))]
        same = None
        flow = True
        if cmpc:
            t, op, v = cmpc[-1]
            same = (v != 0) if op == "==" else (0 in v)
            args = t[2]
            from_instr = any(rooted_in(a, lambda x: x == ("s", "_2"), p.env) for a in args)
            from_cell = any(rooted_in(a, lambda x: x[0] == "app" and x[1].endswith("try_from"),
                                      p.env) for a in args)
            flow = from_instr and from_cell
        arms.setdefault(vname, []).append({"same": same, "failed": failed, "flow": flow})
    return arms


def run(thorough=False):
    try:
        mir, secs, cached = util.get()
        fail_idx = util.struct_field_index("src/machine/machine_state.rs", "MachineState", "fail")
        variants = number_variants()
        table = {fn: analyse(mir, fn, fail_idx, variants) for fn in FNS}
    except Exception as e:  # noqa
        log("  mirsmt C05: cannot analyse (%s)" % e)
        return {"exit": EXIT_INCONCLUSIVE, "mirsmt_error": str(e)}
    queries, meta = [], []
    for fn, arms in table.items():
        for vname in ("Fixnum", "Integer", "Rational", "Float"):
            rs = arms.get(vname)
            if not rs:
                queries.append("(assert true)")
                meta.append((fn, vname, None))
                continue

            def cube(r):
                if r["same"] is None:
                    return "true"
                return "same" if r["same"] else "(not same)"
            ok_paths = "(or false %s)" % " ".join(cube(r) for r in rs if not r["failed"])
            fail_paths = "(or false %s)" % " ".join(cube(r) for r in rs if r["failed"])
            if vname == "Float":
                spec = "(and (not %s) %s)" % (ok_paths, fail_paths)
            else:
                spec = "(and (= %s same) (= %s (not same)))" % (ok_paths, fail_paths)
            queries.append("(declare-const same Bool)\n(assert (not %s))" % spec)
            meta.append((fn, vname, all(r["flow"] for r in rs)))
    br = smt.check_batch(queries, thorough=thorough, getvals=[["same"]] * len(queries))
    res = {"evaluations": len(queries), "distinct_nontrivial": 0, "samples": [],
           "mirsmt_regions": ["Unifier::" + f for f in FNS], "mirsmt_seconds": br["z3_s"],
           "mirsmt_assumptions": ["dashu's num_eq / eq compare denoted values (checked for "
                                  "IBig::num_eq(&i64) on stack values by engine K in round 0)",
                                  "a cell that is not a number makes try_from fail and the "
                                  "unification fail"]}
    if br["results"] is None or (thorough and br["agree"] is False):
        res["exit"] = EXIT_INCONCLUSIVE
        return res
    viol = []
    for (fn, vname, flow), r, q in zip(meta, br["results"], queries):
        if flow is None:
            viol.append({"fn": fn, "cell": vname, "why": "no path handles this representation"})
            continue
        good = r["answer"] == "unsat" and flow
        res["distinct_nontrivial"] += good
        if not good:
            viol.append({"fn": fn, "cell": vname, "answer": r["answer"], "model": r["model"],
                         "flow_ok": flow})
        if len(res["samples"]) < 12:
            res["samples"].append({"query": "%s against a %s cell: not failed <=> same value" % (fn, vname),
                                   "answer": r["answer"], "flow_ok": flow})
    log("  mirsmt C05: %d (kernel, representation) arms, %d hold, %d violations (z3 %.2fs)" % (
        len(queries), res["distinct_nontrivial"], len(viol), br["z3_s"]))
    if viol:
        res["mirsmt_violations"] = viol
        from .. import prolog
        rp = prolog.replay_equal_integers(viol)
        if rp["reproduced"]:
            log("VIOLATION property=C05 replay=%s" % rp["path"])
            res["exit"] = EXIT_VIOLATION
        else:
            for v in viol[:4]:
                log("    fails: %s" % v)
            log("  mirsmt C05: model did not reproduce on the binary (%s) -> inconclusive" %
                rp.get("why"))
            res["exit"] = EXIT_INCONCLUSIVE
    return res

"""Translate mirsmt terms / path conditions into SMT-LIB2 (QF_UFBV style, 64-bit words).

Every leaf (free symbol, projection out of an opaque value, call result, discriminant) becomes one
SMT constant; equal terms share the constant. Integer-typed MIR values are 64-bit bit-vectors
(usize/u64/isize; narrower ints are zero-extended - enough for the control/wiring checks this
engine is used for, not for wrap-around arithmetic, which is engine K's job)."""
import re

CMP = {"Lt": "bvult", "Le": "bvule", "Gt": "bvugt", "Ge": "bvuge"}
ARITH = {"Add": "bvadd", "Sub": "bvsub", "Mul": "bvmul", "BitAnd": "bvand", "BitOr": "bvor",
         "BitXor": "bvxor", "Shl": "bvshl", "Shr": "bvlshr", "Div": "bvudiv", "Rem": "bvurem"}


class Encoder:
    def __init__(self, std_models=False):
        self.leaves = {}      # term -> (name, sort)
        self.order = []
        self.std_models = std_models

    def leaf(self, t, sort="(_ BitVec 64)"):
        if t not in self.leaves:
            name = "v%d" % len(self.leaves)
            self.leaves[t] = (name, sort)
            self.order.append(t)
        n, s = self.leaves[t]
        if s != sort:
            # the same leaf used at both sorts: keep two constants tied by (= b (not (= v 0)))
            alt = (t, sort)
            if alt not in self.leaves:
                self.leaves[alt] = ("%s_%s" % (n, "b" if sort == "Bool" else "w"), sort)
                self.order.append(alt)
            return self.leaves[alt][0]
        return n

    def is_bool_term(self, t):
        return t[0] == "op" and (t[1] in CMP or t[1] in ("Eq", "Ne", "Not"))

    def bv(self, t):
        k = t[0]
        if k == "c":
            return "#x%016x" % (t[1] & (2**64 - 1))
        if k == "atom":
            return "#x%016x" % t[1]
        if k == "op":
            op, a = t[1], t[2]
            if op in ARITH:
                return "(%s %s %s)" % (ARITH[op], self.bv(a[0]), self.bv(a[1]))
            if op.startswith("cast:"):
                return self.bv(a[0])
            if self.is_bool_term(t):
                return "(ite %s #x0000000000000001 #x0000000000000000)" % self.boolean(t)
            if op in ("AddWithOverflow", "SubWithOverflow", "MulWithOverflow"):
                return self.leaf(t)
        if k == "app" and self.std_models and len(t[2]) == 2:
            # std integer helpers with their documented meaning (usize)
            if t[1].endswith("usize>::saturating_sub"):
                a, b = self.bv(t[2][0]), self.bv(t[2][1])
                return "(ite (bvuge %s %s) (bvsub %s %s) #x0000000000000000)" % (a, b, a, b)
            if t[1].endswith("<usize as std::cmp::Ord>::min"):
                a, b = self.bv(t[2][0]), self.bv(t[2][1])
                return "(ite (bvule %s %s) %s %s)" % (a, b, a, b)
            if t[1].endswith("<usize as std::cmp::Ord>::max"):
                a, b = self.bv(t[2][0]), self.bv(t[2][1])
                return "(ite (bvuge %s %s) %s %s)" % (a, b, a, b)
        if k == "proj" and t[2] == ".0" and t[1][0] == "op" and t[1][1] in (
                "AddWithOverflow", "SubWithOverflow", "MulWithOverflow"):
            o = {"AddWithOverflow": "bvadd", "SubWithOverflow": "bvsub",
                 "MulWithOverflow": "bvmul"}[t[1][1]]
            return "(%s %s %s)" % (o, self.bv(t[1][2][0]), self.bv(t[1][2][1]))
        return self.leaf(t)

    def boolean(self, t):
        if t[0] == "c":
            return "true" if t[1] else "false"
        if t[0] == "op":
            op, a = t[1], t[2]
            if op in CMP:
                return "(%s %s %s)" % (CMP[op], self.bv(a[0]), self.bv(a[1]))
            if op == "Eq":
                return "(= %s %s)" % (self.bv(a[0]), self.bv(a[1]))
            if op == "Ne":
                return "(not (= %s %s))" % (self.bv(a[0]), self.bv(a[1]))
            if op == "Not":
                return "(not %s)" % self.boolean(a[0])
        return self.leaf(t, "Bool")

    def cond(self, c, boolish=None):
        """one path condition (term, op, value) -> Bool"""
        t, op, v = c
        as_bool = self.is_bool_term(t) or (boolish and boolish(t))
        if as_bool:
            b = self.boolean(t)
            if op == "==":
                return b if v else "(not %s)" % b
            # not_in (0,) -> true ; not_in (1,) -> false
            if set(v) == {0}:
                return b
            if set(v) == {1}:
                return "(not %s)" % b
            return "false" if set(v) >= {0, 1} else "true"
        x = self.bv(t)
        if op == "==":
            return "(= %s #x%016x)" % (x, v & (2**64 - 1))
        return "(and true %s)" % " ".join("(not (= %s #x%016x))" % (x, u & (2**64 - 1)) for u in v)

    def conj(self, conds, boolish=None):
        return "(and true %s)" % " ".join(self.cond(c, boolish) for c in conds)

    def decls(self):
        out = []
        for key in self.order:
            n, s = self.leaves[key]
            out.append("(declare-const %s %s)" % (n, s))
        return "\n".join(out)

    def legend(self, fmt):
        return {self.leaves[k][0]: fmt(k if not (isinstance(k, tuple) and len(k) == 2 and
                                                 isinstance(k[1], str) and k[1] in ("Bool",))
                                       else k[0]) for k in self.order}

"""C20 (M part): compare_pstr_slices hands back, for each string that ended, the cell index of
that string's tail: tail_k + (pos + offset_k) / 8, where offset_k is the distance of slice k's
start from the preceding cell boundary. For every `Continue(..)` result of the closure that
computes it, z3 decides that the index expression equals this specification built from the
leaves belonging to the SAME slice (the find_tail call and the align_offset call on slice k)."""
import re

from .. import smt
from ..common import EXIT_INCONCLUSIVE, EXIT_OK, EXIT_VIOLATION, log
from . import core, util
from .smtgen import Encoder


def slice_of(p, t, depth=0):
    """which captured slice (0 = slice1, 1 = slice2) does this term derive from?"""
    if t is None or depth > 14:
        return None
    if t[0] == "ref":
        v = p.env.get(t[1])
        if v is None:
            m = re.search(r"\(\*_1\)\.(\d+)", t[1])
            if m:
                return int(m.group(1))
            m = re.search(r"_\d+", t[1])
            v = p.env.get(m.group(0)) if m else None
        return slice_of(p, v, depth + 1)
    if t[0] == "proj":
        root, projs = util.field_path(t)
        if root == ("s", "_1") and len(projs) >= 2 and projs[0] == "*" and re.match(r"^\.\d+$", projs[1]):
            return int(projs[1][1:])
        return slice_of(p, t[1], depth + 1)
    if t[0] in ("app", "op", "agg"):
        args = t[2]
        if t[0] == "app" and re.search(r"Fn<.*>>::call$", t[1]):
            args = args[1:]                 # the callee closure itself is not an operand
        for a in args:
            s = slice_of(p, a, depth + 1)
            if s is not None:
                return s
    return None


def find_apps(t, pat, out, depth=0):
    if t is None or depth > 16:
        return
    if t[0] == "app":
        if re.search(pat, t[1]):
            out.append(t)
        for a in t[2]:
            find_apps(a, pat, out, depth + 1)
    elif t[0] in ("proj", "disc"):
        find_apps(t[1], pat, out, depth + 1)
    elif t[0] in ("op", "agg"):
        for a in t[2]:
            find_apps(a, pat, out, depth + 1)


def copier_obligations(mir):
    """CopyTermState::copy_partial_string: a string reached for the first time at a new lowest
    reference is registered in pstr_loc_locs under its cell index; on every path that registers it
    (BTreeMap insert) the string's first cell is overwritten with the marker and the old cell is
    pushed on the copier's trail as TrailRef::pstr_loc of the SAME cell index (z3: index of the
    store == index of the trail entry), so that unwind_trail restores it.
    -> (queries, meta)"""
    from .smtgen import Encoder
    ns = [n for n in mir.index if n.endswith("::copy_partial_string") and n.startswith("copier::")]
    if len(ns) != 1:
        raise core.Unsupported("copy_partial_string: %s" % ns)
    b = mir.body(ns[0])
    heads = util.back_edge_targets(b)
    paths = core.Executor(b, stop_blocks=tuple(heads), max_depth=500, max_paths=4000).run("bb0")
    queries, meta = [], []
    seen = set()
    for p in paths:
        if p.end != "return":
            continue
        ins = [e for e in p.events if e[0] == "call" and re.search(r"BTreeMap::<.*>::insert$", e[1])]
        if not ins:
            continue
        idxm = [e for e in p.events if e[0] == "call" and e[1].endswith("index_mut")]
        pl = [e for e in p.events if e[0] == "call" and e[1].endswith("TrailRef::pstr_loc")]
        push = [e for e in p.events if e[0] == "call" and e[1].endswith("::push") and len(e[2]) > 1 and
                e[2][1][0] == "agg" and e[2][1][2] and e[2][1][2][0] in [x[3] for x in pl]]
        enc = Encoder()
        if idxm and pl and push:
            q = enc.decls() if False else ""
            i1, i2 = enc.bv(idxm[-1][2][1]), enc.bv(pl[-1][2][0])
            q = enc.decls() + "\n(assert (not (= %s %s)))" % (i1, i2)
        else:
            q = "(assert true)"
        key = q
        if key in seen:
            continue
        seen.add(key)
        queries.append(q)
        meta.append({"slice": 0, "own_offset_present": True, "window": True,
                     "expr": "copy_partial_string: registering a string marks its first cell and trails the old "
                             "cell under the same index (%s)" % ("marker + trail present" if idxm and pl and push
                                                                 else "marker or trail entry missing")})
    if not queries:
        raise core.Unsupported("copy_partial_string: no registering path")
    return queries, meta


def run(thorough=False, prop="C20"):
    try:
        mir, secs, cached = util.get()
        names = [n for n in mir.index if re.match(r"^heap::compare_pstr_slices::\{closure#\d+\}$", n)]
        body = None
        for n in names:
            b = mir.body(n)
            if any("PStrContinuable::TailIndex" in l for ls in b.blocks.values() for l in ls):
                body = b
        if body is None:
            raise core.Unsupported("closure computing the result not found")
        paths = core.Executor(body, max_depth=300, max_paths=3000).run("bb0")
    except Exception as e:  # noqa
        log("  mirsmt %s (compare_pstr_slices):" % prop + " cannot analyse (%s)" % e)
        return {"exit": EXIT_INCONCLUSIVE, "mirsmt_error": str(e)}
    # capture fields of the closure that are used as byte slices, in order: slice1, slice2
    fields = set()
    for p in paths:
        for e in p.events:
            if e[0] == "call" and re.search(r"as_ptr$|<\[u8\] as Index<", e[1]):
                f = slice_of(p, e[2][0])
                if f is not None:
                    fields.add(f)
    order = sorted(fields)
    if len(order) != 2:
        log("  mirsmt %s (compare_pstr_slices):" % prop + " expected two captured slices, found fields %s" % order)
        return {"exit": EXIT_INCONCLUSIVE, "mirsmt_error": "captures not understood"}

    def slice_no(p, t):
        f = slice_of(p, t)
        return order.index(f) if f in order else None
    queries, meta = [], []
    for p in paths:
        r = p.env.get("_0")
        if not (r and r[0] == "agg" and r[1].endswith("::Continue")):
            continue
        for k, part in enumerate(r[2]):
            if not (part[0] == "agg" and part[1].endswith("TailIndex")):
                continue
            t = part[2][0]
            tails, aos = [], []
            find_apps(t, r"(call|find_tail|Fn<.*>>::call)$", tails)
            find_apps(t, r"align_offset$", aos)
            enc = Encoder()
            code = enc.bv(t)
            ok_flow = False
            spec = None
            # the leaves that belong to slice k
            tk = [x for x in tails if slice_no(p, x) == k]
            ak = [x for x in aos if slice_no(p, x) == k]
            pos = ("s", "_2")
            align = ("k", "machine::heap::ALIGN")
            if tk and ak:
                ok_flow = True
                off = ("op", "Rem", (("proj", ("op", "SubWithOverflow", (align, ak[0])), ".0"), align))
                sz = None
                szs = []
                find_apps(t, r"size_of", szs)
                sz = szs[0] if szs else ("c", 8)
                spec_t = ("proj", ("op", "AddWithOverflow",
                                   (tk[0], ("op", "Div", (("proj", ("op", "AddWithOverflow", (pos, off)), ".0"), sz)))), ".0")
                spec = enc.bv(spec_t)
            else:
                # no offset of slice k in the expression: compare against the specification with a
                # fresh offset leaf for slice k (the query is then satisfiable)
                tk0 = tk[0] if tk else (tails[0] if tails else ("s", "tail%d" % k))
                szs = []
                find_apps(t, r"size_of", szs)
                sz = szs[0] if szs else ("c", 8)
                off = ("s", "offset_of_slice_%d" % (k + 1))
                spec_t = ("proj", ("op", "AddWithOverflow",
                                   (tk0, ("op", "Div", (("proj", ("op", "AddWithOverflow", (pos, off)), ".0"), sz)))), ".0")
                spec = enc.bv(spec_t)
            q = enc.decls() + "\n(assert (not (= %s %s)))" % (code, spec)
            # size_of is 8 and offsets are < 8: give the solver these facts when the leaves exist
            queries.append(q)
            meta.append({"slice": k + 1, "own_offset_present": ok_flow, "expr": util.term_str(t)[:200]})
    if not queries:
        return {"exit": EXIT_INCONCLUSIVE, "mirsmt_error": "no TailIndex construction found"}
    # the mismatch branch: both slices are re-read through a window around pos that must hold the
    # whole character the byte at pos belongs to (up to 3 bytes before, up to 4 from pos on)
    wins = {}
    for p in paths:
        for e in p.events:
            if e[0] == "call" and re.search(r"Index<std::ops::Range<usize>>>::index$", e[1]) and \
                    any(x[0] == "call" and x[1].endswith("utf8_chunks") and x[2] and x[2][0] == e[3]
                        for x in p.events):
                k = slice_no(p, e[2][0])
                rng = e[2][1]
                if k is not None and rng[0] == "agg" and "Range" in rng[1] and len(rng[2]) == 2:
                    wins[k] = (e[2][0], rng[2][0], rng[2][1])
    n_tail = len(queries)
    if len(wins) != 2:
        log("  mirsmt %s (compare_pstr_slices):" % prop + " mismatch windows of compare_pstr_slices not recognised (%d found)" % len(wins))
        return {"exit": EXIT_INCONCLUSIVE, "mirsmt_error": "mismatch window not understood"}
    if len(wins) == 2:
        enc = Encoder(std_models=True)
        pos = enc.bv(("s", "_2"))
        parts = []
        for k in (0, 1):
            sl, st, en = wins[k]
            ln = enc.bv(("op", "PtrMetadata", (sl,)))
            s_, e_ = enc.bv(st), enc.bv(en)
            pre = "(and (bvult %s %s) (bvult %s #x1000000000000000))" % (pos, ln, ln)
            want = ("(and (bvule {s} {p}) (=> (bvuge {p} #x0000000000000003) (bvule {s} (bvsub {p} #x0000000000000003))) "
                    "(=> (bvult {p} #x0000000000000003) (= {s} #x0000000000000000)) "
                    "(bvuge {e} (ite (bvule (bvadd {p} #x0000000000000004) {l}) (bvadd {p} #x0000000000000004) {l})) "
                    "(bvule {e} {l}))").format(s=s_, e=e_, p=pos, l=ln)
            parts.append((pre, want, s_))
        q = enc.decls() + "\n(assert (and %s %s))\n(assert (not (and %s %s (= %s %s))))" % (
            parts[0][0], parts[1][0], parts[0][1], parts[1][1], parts[0][2], parts[1][2])
        queries.append(q)
        meta.append({"slice": 0, "own_offset_present": True, "window": True,
                     "expr": "mismatch window: start <= pos-3 (or 0), end >= min(pos+4, len), same start on both slices"})
    if prop == "C20":
        try:
            cq, cm = copier_obligations(mir)
            queries += cq
            meta += cm
        except Exception as e:  # noqa
            log("  mirsmt %s: copier: cannot analyse (%s)" % (prop, e))
            return {"exit": EXIT_INCONCLUSIVE, "mirsmt_error": str(e)}
    br = smt.check_batch(queries, thorough=thorough)
    res = {"evaluations": len(queries), "distinct_nontrivial": 0, "samples": [],
           "mirsmt_regions": ["heap::compare_pstr_slices::{closure} (calculate_result)",
                              "CopyTermState::copy_partial_string"],
           "mirsmt_seconds": br["z3_s"]}
    if br["results"] is None or (thorough and br["agree"] is False):
        res["exit"] = EXIT_INCONCLUSIVE
        return res
    viol = []
    for m, r in zip(meta, br["results"]):
        good = r["answer"] == "unsat" and m["own_offset_present"]
        res["distinct_nontrivial"] += good
        if not good:
            viol.append({**m, "answer": r["answer"]})
        res["samples"].append({"query": m["expr"] if m.get("window") else
                               "TailIndex of slice %d == tail + (pos + offset_%d)/8" % (m["slice"], m["slice"]),
                               "answer": r["answer"], "expr": m["expr"]})
    log("  mirsmt %s (compare_pstr_slices):" % prop + " %d tail-index constructions + mismatch window in compare_pstr_slices, %d "
        "obligations hold, %d violations (z3 %.2fs)" % (n_tail, res["distinct_nontrivial"],
                                                        len(viol), br["z3_s"]))
    cop = [v for v in viol if "copy_partial_string" in v.get("expr", "")]
    viol = [v for v in viol if v not in cop]
    if cop:
        res["mirsmt_violations"] = cop
        from .. import prolog
        rp = prolog.replay_string_copy(cop)
        if rp["reproduced"]:
            log("VIOLATION property=%s replay=%s" % (prop, rp["path"]))
            res["exit"] = EXIT_VIOLATION
        else:
            log("  mirsmt %s (copier): the string-copy replay answers as specified (%s) -> inconclusive" % (
                prop, rp.get("why")))
            res["exit"] = EXIT_INCONCLUSIVE
    if viol:
        res.setdefault("mirsmt_violations", []).extend(viol)
        from .. import prolog
        rp = prolog.replay_string_suffix_compare(viol, prop)
        if rp["reproduced"]:
            log("VIOLATION property=%s replay=%s" % (prop, rp["path"]))
            res["exit"] = EXIT_VIOLATION
        else:
            log("  mirsmt %s (compare_pstr_slices):" % prop + " model did not reproduce on the binary (%s) -> inconclusive" %
                rp.get("why"))
            if res.get("exit") != EXIT_VIOLATION:
                res["exit"] = EXIT_INCONCLUSIVE
    return res

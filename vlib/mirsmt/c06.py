"""C06 (constant keys of first-argument indexing): if a call argument A denotes the same number as a
clause's first-argument constant L, the key looked up for A is among the keys stored for L.

Facts extracted from the MIR of the current tree (symbolic execution of the regions):
  * call side  - Machine::execute_switch_on_term, SwitchOnConstant arm: which expression reaches
    IndexMap::get - the raw cell, or the cell normalised through constant_key_alternatives, and
    under which tag guard;
  * clause side - CodeOffsets::index_constant: which keys are entered (the literal's own cell, and
    the alternative returned by constant_key_alternatives);
  * constant_key_alternatives itself: Integer / integral Rational -> Fixnum iff build_with_checked
    accepts the value.
These facts instantiate an SMT model of cells: kind in {fixnum, bignum cell, rational cell}, the
denoted integer, and for arena cells the pointer (HeapCellValue's derived Eq compares raw bits, so
two arena cells are equal iff they are the same pointer). z3 decides
    exists L, A.  denotes(L) = denotes(A)  /\  key_call(A) not in keys_clause(L)
separately for values inside and outside the fixnum range."""
import re

from .. import smt
from ..common import EXIT_INCONCLUSIVE, EXIT_OK, EXIT_VIOLATION, REPO, known_for, log
from . import core, util


def promoted_const(mir, fn_name_suffix, idx):
    """value assigned in `const <fn>::promoted[idx]` (a unit enum variant path)"""
    for i, l in enumerate(mir.lines):
        if l.startswith("const ") and ("%s::promoted[%d]" % (fn_name_suffix, idx)) in l:
            for l2 in mir.lines[i:i + 12]:
                m = re.match(r"\s*_1 = ([\w:]+);", l2)
                if m:
                    return m.group(1)
    return None


LOOKUP = r"IndexMap::<types::HeapCellValue, instructions::IndexingCodePtr.*>::get"


def key_expression(p, key):
    """classify the expression handed to IndexMap::get on path p"""
    kv = p.env.get(key[1]) if key[0] == "ref" else key
    if kv is None:
        return {"kind": "unknown"}
    if kv[0] == "s" or kv[0] == "proj":
        return {"kind": "raw", "cell": kv}
    if kv[0] == "app" and kv[1].endswith("switch_on_constant_key"):
        return {"kind": "helper", "cell": kv[2][1] if len(kv[2]) > 1 else None}
    def mentions(t, pat, depth=0):
        if t is None or depth > 10:
            return False
        if t[0] == "app":
            return bool(re.search(pat, t[1])) or any(mentions(a, pat, depth + 1) for a in t[2])
        if t[0] in ("proj", "disc"):
            return mentions(t[1], pat, depth + 1)
        if t[0] in ("agg", "op"):
            return any(mentions(a, pat, depth + 1) for a in t[2])
        return False
    if mentions(kv, r"AtomCell::build_with$|AtomCell::new_"):
        return {"kind": "atom_cell"}          # a freshly built atom key: not a number
    chain, t, addr = [], kv, None
    while t is not None and t[0] == "app":
        chain.append(t[1].split("::")[-1])
        if t[1].endswith("unwrap_or"):
            addr = t[2][1]
        t = t[2][0] if t[2] else None
        if t is not None and t[0] == "agg" and t[1] == "tuple":
            t = t[2][0]
    fn_args = [str(e[2][1]) for e in p.events if e[0] == "call" and
               (e[1].endswith("and_then") or e[1].endswith("::map"))]
    if (chain[:5] == ["unwrap_or", "map", "and_then", "ok", "try_from"] and
            any("constant_key_alternatives" in a for a in fn_args) and
            any("HeapCellValue as From<ast::Literal>" in a for a in fn_args) and addr == t):
        return {"kind": "inline_normalised", "cell": t}
    return {"kind": "unknown", "chain": chain}


def tag_guard(p):
    for tm, op, v in p.conds:
        if tm[0] == "app" and tm[1].endswith("PartialEq>::eq"):
            return (v != 0) if op == "==" else (0 in v)
    return None


def helper_facts(mir):
    """MachineState::switch_on_constant_key: under which guard it normalises"""
    names = mir.find(r"::switch_on_constant_key$")
    if not names:
        return None
    body = mir.body(names[0])
    paths = core.Executor(body, max_depth=200).run("bb0")
    facts = []
    for p in paths:
        if p.end != "return":
            continue
        r = p.env.get("_0")
        ke = key_expression(p, r) if r is not None else {"kind": "unknown"}
        if r == ("s", "_2"):
            ke = {"kind": "raw"}
        facts.append({"guard_tag_eq": tag_guard(p), "kind": ke["kind"]})
    tagc = None
    for cand in ("switch_on_constant_key",):
        tagc = promoted_const(mir, cand, 0)
    return {"paths": facts, "guard_constant": tagc}


def call_side(mir):
    """every function that looks a cell up in a constant index table"""
    sites = []
    for name in mir.index:
        if name.startswith("indexing::"):
            continue          # clause-side maintenance (keys come from literals): clause_side()
        for (s0, e0) in mir.index[name]:
            if any(re.search(LOOKUP, l) for l in mir.lines[s0:e0]):
                sites.append(name)
                break
    if not sites:
        raise core.Unsupported("no constant-table lookup found")
    out = []
    for name in sites:
        body = mir.body(name)
        gets = [(bb, ls[-1]) for bb, ls in body.blocks.items() if re.search(LOOKUP, ls[-1])]
        for bb, term in gets:
            succ = re.search(r"return: (bb\d+)", term).group(1)
            # walk back to the start of the straight-line / branching region of this arm
            try:
                entry = util.arm_entry(body, "SwitchOnConstant")
            except core.Unsupported:
                entry = bb
            paths = core.Executor(body, stop_blocks=[succ], max_depth=200).run(entry)
            kinds = []
            for p in paths:
                g = [e for e in p.events if e[0] == "call" and re.search(LOOKUP.replace(".*", ".*") + "$", e[1])]
                if not g or p.end != succ:
                    continue
                ke = key_expression(p, g[0][2][1])
                kinds.append({"kind": ke["kind"], "guard_tag_eq": tag_guard(p)})
            if not kinds:
                raise core.Unsupported("lookup in %s not reached from its SwitchOnConstant arm" % name)
            out.append({"fn": name.split("::")[-1], "paths": kinds})
    return out


def clause_side(mir):
    names = [n for n in mir.find(r"::index_constant$") if "CodeOffsets" in mir.lines[mir.index[n][0][0]]]
    if len(names) != 1:
        raise core.Unsupported("CodeOffsets::index_constant: %s" % names)
    body = mir.body(names[0])
    paths = core.Executor(body, max_depth=300).run("bb0")
    primary = alt = False
    alt_from_cka = False
    for p in paths:
        if p.end != "return":
            continue
        cka = core.calls(p, r"constant_key_alternatives$")
        entries = core.calls(p, r"::entry$")
        for e in entries:
            k = e[2][1]
            ra = util.root_app(k)
            if ra and ra[1].endswith("From<ast::Literal>>::from"):
                src = ra[2][0]
                if src == ("s", "_2"):
                    primary = True
                else:
                    r2 = util.root_app(src)
                    if r2 and cka and r2[3] == cka[0][3][3]:
                        alt = True
            elif ra and ra[1].endswith("::map"):
                alt = True
        if cka and cka[0][2][0] == ("s", "_2"):
            alt_from_cka = True
        # alternative entered through Option::map(HeapCellValue::from) then `if let Some`
        for e in core.calls(p, r"Option::<ast::Literal>::map$"):
            if util.root_app(e[2][0]) and util.root_app(e[2][0])[1].endswith("constant_key_alternatives"):
                for en in entries:
                    r3 = util.root_app(en[2][1])
                    if r3 and r3[3] == e[3][3]:
                        alt = True
    return {"primary": primary, "alt": alt and alt_from_cka}


def literal_variant(name):
    import os
    with open(os.path.join(REPO, "src/parser/ast.rs")) as f:
        txt = f.read()
    m = re.search(r"pub enum Literal \{(.*?)\n\}", txt, re.S)
    if not m:
        raise core.Unsupported("enum Literal not found")
    names = re.findall(r"^\s*(\w+)\s*(?:\(|,)", m.group(1), re.M)
    if name not in names:
        raise core.Unsupported("Literal::%s not found (%s)" % (name, names))
    return names.index(name)


def alternatives_fn(mir):
    name = mir.find(r"(^|::)constant_key_alternatives$")
    body = mir.body(name[0])
    paths = core.Executor(body, max_depth=200).run("bb0")
    out = {"Integer": False, "Rational": False, "rational_guard": False, "other_none": True,
           "integers_always_converted": True}
    for p in paths:
        if p.end != "return":
            continue
        r = p.env.get("_0")
        bwc = core.calls(p, r"Fixnum::build_with_checked")
        # once the constant is known to be an integer (a reference to its digits was taken: the local
        # `n`), every path must go through Fixnum::build_with_checked - an extra early return
        # would leave a fitting value without its fixnum key
        took_int = any(c[0][0] == "app" and c[0][1].endswith("is_one") and
                       ((c[1] == "not_in" and 0 in c[2]) or (c[1] == "==" and c[2] == 1)) for c in p.conds)
        if not took_int:
            for tm, op, v in p.conds:
                if tm[0] == "disc" and tm[1] == ("s", "_1") and op == "==" and v == literal_variant("Integer"):
                    took_int = True
        if took_int and not bwc:
            out["integers_always_converted"] = False
        variant = None
        for tm, op, v in p.conds:
            if tm[0] == "disc" and tm[1] == ("s", "_1") and op == "==":
                variant = v
        if bwc:
            okc = core.calls(p, r"::ok$")
            mapc = [e for e in core.calls(p, r"::map$") if "Fixnum" in str(e[2][1])]
            good = bool(okc and mapc and util.root_app(r) and util.root_app(r)[1].endswith("::ok"))
            isone = core.calls(p, r"is_one$")
            if isone:
                out["Rational"] = good
                out["rational_guard"] = any(tm[0] == "app" and tm[1].endswith("is_one") and
                                            ((op == "not_in" and 0 in v) or (op == "==" and v == 1))
                                            for tm, op, v in p.conds)
            else:
                out["Integer"] = good
        else:
            if not (r and r[0] == "agg" and r[1].endswith("::None")):
                out["other_none"] = False
    return out


def routing(mir):
    """select_switch_on_term_index: which of the four tables (v, c, l, s) each kind of first
    argument is sent to. Returns ({kind: table}, spec, problems)."""
    from .c11 import enum_values
    body = mir.body(mir.find(r"::select_switch_on_term_index$")[0])
    paths = core.Executor(body, max_depth=200).run("bb0")
    tags = {v: k for k, v in enum_values("src/types.rs", "HeapCellValueTag").items()}
    atags = {v: k for k, v in enum_values("src/arena.rs", "ArenaHeaderTag").items()}
    param = {("s", "_3"): "v", ("s", "_4"): "c", ("s", "_5"): "l", ("s", "_6"): "s"}
    got = {}
    for p in paths:
        if p.end != "return":
            continue
        kind, sub = None, ""
        for t, op, v in p.conds:
            ra = util.root_app(t)
            if t[0] == "disc" and ra and ra[1].endswith("HeapCellValue::get_tag") and op == "==":
                kind = tags.get(v, "tag%d" % v)
            elif t[0] == "disc" and ra and ra[1].endswith("get_tag") and kind == "Cons":
                sub = ":" + (atags.get(v, "?") if op == "==" else "other")
            elif ra and ra[1].endswith("get_name_and_arity"):
                proj = util.field_path(t)[1]
                if proj[-1] == ".1":        # arity
                    if op == "==":
                        sub += ":arity%d" % v
                    else:
                        sub += ":arity_not_%s" % "_".join(map(str, v))
                else:                       # name index
                    sub += ":dot" if op == "==" else ":notdot"
        r = p.env.get("_0")
        tgt = param.get(r) or (r[1].split("::")[-1] if r and r[0] == "agg" else str(r))
        got[(kind or "?") + sub] = tgt
    spec = {"Var": "v", "StackVar": "v", "AttrVar": "v", "Lis": "l", "PStrLoc": "l",
            "Fixnum": "c", "CutPoint": "c", "F64Offset": "c", "Atom": "c",
            "Cons:Integer": "c", "Cons:Rational": "c", "Cons:other": "Fail",
            "Str:dot:arity2": "l", "Str:dot:arity_not_2:arity0": "c",
            "Str:dot:arity_not_2:arity_not_0": "s", "Str:notdot:arity0": "c",
            "Str:notdot:arity_not_0": "s"}
    return got, spec


def layout_obligations(mir):
    """CodeOffsets::compute_indices lays the first-level index out as
         [switch_on_term, switch_on_constant?, switch_on_structure?, list code ...]
    (each emitter pushes to the front, so a line's final index is 1 + the number of lines emitted
    after it): con stays, str = str0 + [constant line emitted], lst = lst0 + [constant line emitted]
    + [structure line emitted]. The flags are locals written inside the emitters' closures; the
    executor forgets them at those calls, so they are free 0/1 inputs. z3 decides the equalities for
    every path on which the pointer is Internal. -> (queries, meta)"""
    from .smtgen import Encoder
    names = [n for n in mir.index if n.endswith("::compute_indices") and n.startswith("indexing::")]
    if len(names) != 1:
        raise core.Unsupported("compute_indices: %s" % names)
    body = mir.body(names[0])
    dbg = body.debug
    need = ("lst_loc", "str_loc", "con_loc", "emitted_switch_on_structure", "emitted_switch_on_constant")
    loc = {}
    for k in need:
        m = re.match(r"^(_\d+)", str(dbg.get(k, "")))
        if not m:
            raise core.Unsupported("compute_indices: local %s not found in debug info" % k)
        loc[k] = m.group(1)
    heads = util.back_edge_targets(body)
    paths = core.Executor(body, stop_blocks=tuple(heads), max_depth=300, max_paths=2000).run("bb0")
    queries, meta = [], []
    for p in paths:
        if p.end != "return":
            continue
        fc = p.env.get(loc["emitted_switch_on_constant"])
        fs = p.env.get(loc["emitted_switch_on_structure"])
        if fc is None or fs is None or fc[0] != "s" or fs[0] != "s":
            continue            # the path that returns before emitting anything
        for which, adds in (("lst_loc", (fc, fs)), ("str_loc", (fc,)), ("con_loc", ())):
            base = p.env.get(loc[which])
            if base is None or base[0] != "app":
                continue
            internal = [c for c in p.conds if c[0] == ("disc", base) and c[1] == "==" ]
            stored = p.env.get("(%s as Internal).0" % loc[which])
            if which != "con_loc" and not internal:
                continue        # not an Internal pointer on this path: nothing to shift
            enc = Encoder()
            b0 = enc.bv(("proj", ("proj", base, " as Internal"), ".0"))
            cur = enc.bv(stored) if stored is not None else b0
            want = b0
            for f in adds:
                want = "(bvadd %s %s)" % (want, enc.bv(f))
            flags01 = " ".join("(bvule %s #x0000000000000001)" % enc.bv(f) for f in (fc, fs))
            queries.append(enc.decls() + "\n(assert (and true %s))\n(assert (not (= %s %s)))" % (flags01, cur, want))
            meta.append({"pointer": which, "shift": ["constant line", "structure line"][:len(adds)],
                         "stored": util.term_str(stored)[:160] if stored is not None else "(unchanged)"})
    if not queries:
        raise core.Unsupported("compute_indices: no Internal pointer path found")
    # dedupe
    seen, uq, um = set(), [], []
    for q, m in zip(queries, meta):
        if q not in seen:
            seen.add(q)
            uq.append(q)
            um.append(m)
    return uq, um


LOOKAHEAD_ACCEPTS = {
    # head instruction -> the kinds of cell its unification kernel can succeed on (C10's kernels:
    # unify_list / unify_structure / unify_partial_string bind variables and descend into these kinds,
    # every other kind fails)
    "GetList": ["Lis", "PStrLoc", "Str", "Var", "StackVar", "AttrVar"],
    "GetStructure": ["Str", "Var", "StackVar", "AttrVar"],
    "GetPartialString": ["PStrLoc", "Lis", "Str", "Var", "StackVar", "AttrVar"],
}


def lookahead_obligations(mir):
    """Machine::next_clause_applicable (the look-ahead of try_me_else / retry_me_else / indexed_try /
    retry): a clause may only be skipped when its first head instruction cannot unify with the
    argument. Per head-instruction arm, for every kind of cell the instruction's kernel can accept,
    there is a path that does NOT answer `false` (so no acceptable kind is rejected by its tag), and
    every other kind is rejected. -> list of {obligation, ok, why}"""
    from .c11 import enum_values
    tagname = {v: k for k, v in enum_values("src/types.rs", "HeapCellValueTag").items()}
    ns = [n for n in mir.index if n.endswith("::next_clause_applicable")]
    if len(ns) != 1:
        raise core.Unsupported("next_clause_applicable: %s" % ns)
    body = mir.body(ns[0])
    heads = util.back_edge_targets(body)
    out = []
    for instr, accepts in LOOKAHEAD_ACCEPTS.items():
        entry = util.arm_entry(body, instr)
        paths = core.Executor(body, stop_blocks=tuple(heads), max_depth=400, max_paths=4000).run(entry)
        res = {}
        for p in paths:
            tg = [tagname.get(c[2], str(c[2])) if c[1] == "==" else "other" for c in p.conds
                  if c[0][0] == "disc" and c[0][1][0] == "app" and c[0][1][1].endswith("get_tag")]
            if not tg:
                continue
            rejected = p.end == "return" and p.env.get("_0") == ("c", 0)
            res.setdefault(tg[0], set()).add("reject" if rejected else "go on")
        missing = [t for t in accepts if "go on" not in res.get(t, set())]
        out.append({"obligation": "next_clause_applicable, %s: no kind of cell the instruction can unify with is "
                    "rejected by its tag (%s)" % (instr, ", ".join(accepts)), "ok": not missing,
                    "why": "always rejected: %s" % missing if missing else ""})
        out.append({"obligation": "next_clause_applicable, %s: every other kind of cell is rejected" % instr,
                    "ok": res.get("other") == {"reject"}, "why": str(sorted(res.get("other", [])))})
    # GetConstant: a bound argument is rejected only because unifying it with the literal failed
    entry = util.arm_entry(body, "GetConstant")
    paths = core.Executor(body, stop_blocks=tuple(heads), max_depth=400, max_paths=4000).run(entry)
    rej, rej_without = 0, 0
    for p in paths:
        if p.end == "return" and p.env.get("_0") == ("c", 0):
            rej += 1
            if not any(e[0] == "call" and e[1].endswith("::unify") for e in p.events):
                rej_without += 1
    out.append({"obligation": "next_clause_applicable, GetConstant: a clause is skipped only after unifying the "
                "argument with the literal failed (%d rejecting paths)" % rej,
                "ok": rej > 0 and rej_without == 0, "why": "%d reject without unifying" % rej_without})
    return out


def run(thorough=False, prop="C06"):
    try:
        mir, secs, cached = util.get()
        rt_got, rt_spec = routing(mir)
        cs = call_side(mir)
        hf = helper_facts(mir)
        cl = clause_side(mir)
        af = alternatives_fn(mir)
        lay_q, lay_m = layout_obligations(mir)
        look = lookahead_obligations(mir)
    except Exception as e:  # noqa
        log("  mirsmt C06: cannot extract (%s)" % e)
        return {"exit": EXIT_INCONCLUSIVE, "mirsmt_error": str(e)}
    # ---- instantiate the cell model with the extracted facts
    # a lookup site normalises iff its key goes through the helper (and the helper normalises
    # Cons cells) or through the inline chain under a Cons guard; else it uses the raw cell
    def helper_normalises():
        if not hf:
            return False
        ps = hf["paths"]
        return any(x["kind"] == "inline_normalised" and x["guard_tag_eq"] in (True, None) for x in ps) \
            and all(x["kind"] in ("inline_normalised", "raw") for x in ps) \
            and (hf["guard_constant"] or "").endswith("::Cons")
    tagc = (hf or {}).get("guard_constant") or promoted_const(mir, "execute_switch_on_term", 0)
    site_norm = {}
    unknown = []
    for site in cs:
        kinds = {x["kind"] for x in site["paths"]}
        if kinds <= {"atom_cell"}:
            continue                          # only atoms are looked up here
        if "unknown" in kinds:
            unknown.append(site)
        if kinds <= {"helper"}:
            site_norm[site["fn"]] = helper_normalises()
        elif kinds <= {"inline_normalised", "raw"} and "inline_normalised" in kinds:
            site_norm[site["fn"]] = (tagc or "").endswith("::Cons")
        else:
            site_norm[site["fn"]] = False
    if unknown:
        log("  mirsmt C06: unrecognised key expression at a lookup site: %s" % unknown)
        return {"exit": EXIT_INCONCLUSIVE, "mirsmt_error": "call-side key expression not understood",
                "mirsmt_call_side": cs}
    norm_all = all(site_norm.values())
    norm_when_cons = norm_all
    norm_always = False
    alt_ok = af["Integer"] and af["Rational"] and af["rational_guard"] and af["integers_always_converted"]
    prelude = """
(declare-datatypes ((Kind 0)) (((Fix) (Big) (Rat))))
(declare-datatypes ((Cell 0)) (((mk (kind Kind) (val Int) (ptr Int)))))
(define-fun fits ((v Int)) Bool (and (>= v (- 36028797018963968)) (<= v 36028797018963967)))
; well-formed numeric cells: a fixnum cell holds a fitting value and has no pointer identity
(define-fun wf ((c Cell)) Bool (and (=> (= (kind c) Fix) (and (fits (val c)) (= (ptr c) 0)))
                                    (=> (not (= (kind c) Fix)) (> (ptr c) 0))))
; raw-bits equality of HeapCellValue
(define-fun celleq ((a Cell) (b Cell)) Bool
  (ite (= (kind a) Fix) (and (= (kind b) Fix) (= (val a) (val b)))
       (and (not (= (kind b) Fix)) (= (ptr a) (ptr b)))))
(define-fun has_alt ((c Cell)) Bool (and %s (not (= (kind c) Fix)) (fits (val c))))
(define-fun alt ((c Cell)) Cell (mk Fix (val c) 0))
(define-fun key_call ((a Cell)) Cell (ite (and %s (has_alt a)) (alt a) a))
(define-fun in_clause_keys ((k Cell) (l Cell)) Bool
  (or (and %s (celleq k l)) (and %s (has_alt l) (celleq k (alt l)))))
(declare-const L Cell)
(declare-const A Cell)
(assert (and (wf L) (wf A) (= (val L) (val A))))
; distinct arena cells have distinct pointers; the same cell is the same pointer
(assert (=> (and (not (= (kind L) Fix)) (not (= (kind A) Fix)) (= (ptr L) (ptr A)))
            (= (kind L) (kind A))))
""" % ("true" if alt_ok else "false",
       "true" if (norm_when_cons or norm_always) else "false",
       "true" if cl["primary"] else "false",
       "true" if cl["alt"] else "false")
    q_fit = prelude + "(assert (fits (val A)))\n(assert (not (in_clause_keys (key_call A) L)))"
    q_big = prelude + "(assert (not (fits (val A))))\n(assert (not (in_clause_keys (key_call A) L)))"
    keys = sorted(set(rt_got) | set(rt_spec))
    ids = {}
    a = b = "0"
    for i, k in enumerate(keys):
        a = "(ite (= f %d) %d %s)" % (i, ids.setdefault(rt_got.get(k, "missing"), len(ids) + 1), a)
        b = "(ite (= f %d) %d %s)" % (i, ids.setdefault(rt_spec.get(k, "unexpected"), len(ids) + 1), b)
    q_rt = "(declare-const f Int)\n(assert (and (>= f 0) (< f %d)))\n(assert (not (= %s %s)))" % (
        len(keys), a, b)
    rt_diffs = [{"kind": k, "routed_to": rt_got.get(k), "expected": rt_spec.get(k)} for k in keys
                if rt_got.get(k) != rt_spec.get(k)]
    br = smt.check_batch([q_fit, q_big, q_rt] + lay_q, thorough=thorough,
                         getvals=[["L", "A"], ["L", "A"], ["f"]] + [[]] * len(lay_q))
    res = {"evaluations": 3 + len(lay_q), "distinct_nontrivial": 0, "samples": [],
           "mirsmt_routing": rt_got,
           "mirsmt_regions": ["execute_switch_on_term (SwitchOnConstant arm)",
                              "CodeOffsets::index_constant", "constant_key_alternatives",
                              "CodeOffsets::compute_indices (layout of the first-level index)",
                              "Machine::next_clause_applicable (clause look-ahead by head instruction)"],
           "mirsmt_facts": {"lookup_sites": cs, "helper": hf, "site_normalises": site_norm,
                            "call_guard_constant": tagc, "clause_side": cl,
                            "constant_key_alternatives": af},
           "mirsmt_seconds": br["z3_s"],
           "mirsmt_assumptions": ["HeapCellValue equality is raw-bits equality (derived Eq)",
                                  "two numeric cells denote the same integer; arena cells are equal "
                                  "iff same pointer", "floats are de-duplicated by F64Table (outside)",
                                  "incremental index maintenance (merge_clause_index / remove_index) "
                                  "is outside"]}
    if br["results"] is None or (thorough and br["agree"] is False):
        res["exit"] = EXIT_INCONCLUSIVE
        return res
    a_fit, a_big = br["results"][0], br["results"][1]
    res["samples"] = [
        {"query": "exists L A. fits(v), denotes equal, key_call(A) not in keys_clause(L)",
         "answer": a_fit["answer"], "model": a_fit["model"]},
        {"query": "same, for values outside the fixnum range", "answer": a_big["answer"],
         "model": a_big["model"]}]
    log("  mirsmt C06: lookup sites %s (guard %s), clause side primary=%s alt=%s, "
        "alternatives fn ok=%s; fitting values: %s, non-fitting values: %s" % (
            site_norm, tagc, cl["primary"], cl["alt"], alt_ok, a_fit["answer"], a_big["answer"]))
    from .. import prolog
    exit_code = EXIT_OK
    a_rt = br["results"][2]["answer"]
    res["samples"].append({"query": "first-level routing table == specification (%d kinds)" % len(keys),
                           "answer": a_rt})
    if a_rt == "unsat" and not rt_diffs:
        res["distinct_nontrivial"] += 1
    elif a_rt == "sat" and rt_diffs:
        res["mirsmt_routing_differences"] = rt_diffs
        rp = prolog.replay_index_routing(rt_diffs, prop)
        if rp["reproduced"]:
            log("VIOLATION property=%s replay=%s" % (prop, rp["path"]))
            exit_code = EXIT_VIOLATION
        else:
            log("  mirsmt C06: routing difference %s did not reproduce (%s) -> inconclusive" % (
                rt_diffs[:3], rp.get("why")))
            exit_code = EXIT_INCONCLUSIVE
    else:
        exit_code = EXIT_INCONCLUSIVE
    if a_fit["answer"] == "unsat":
        res["distinct_nontrivial"] += 1
    elif a_fit["answer"] == "sat":
        rp = prolog.replay_index_keys("fit", a_fit["model"], prop)
        if rp["reproduced"]:
            log("VIOLATION property=%s replay=%s" % (prop, rp["path"]))
            exit_code = EXIT_VIOLATION
        elif exit_code == EXIT_OK:
            log("  mirsmt C06: model did not reproduce on the binary (%s) -> inconclusive" %
                rp.get("why"))
            exit_code = EXIT_INCONCLUSIVE
    elif exit_code == EXIT_OK:
        exit_code = EXIT_INCONCLUSIVE
    if a_big["answer"] == "unsat":
        res["distinct_nontrivial"] += 1
    elif a_big["answer"] == "sat":
        # pointer-keyed bignum / rational constants: the structural known finding F5b
        kf = [e for e in known_for(prop) if e.get("match", {}).get("engine") == "mirsmt" and
              e["match"].get("query") == "nonfitting"]
        rp = prolog.replay_index_keys("big", a_big["model"], prop)
        if kf and rp["reproduced"]:
            res["distinct_nontrivial"] += 1
            res["known_findings_hit"] = [kf[0]["id"]]
            log("KNOWN-FINDING: property=%s %s" % (prop, kf[0]["what"]))
        elif rp["reproduced"]:
            log("VIOLATION property=%s replay=%s" % (prop, rp["path"]))
            exit_code = EXIT_VIOLATION
        elif exit_code == EXIT_OK:
            log("  mirsmt C06: non-fitting model did not reproduce (%s) -> inconclusive" % rp.get("why"))
            exit_code = EXIT_INCONCLUSIVE
    elif exit_code == EXIT_OK:
        exit_code = EXIT_INCONCLUSIVE
    lay_bad = []
    for m, r in zip(lay_m, br["results"][3:]):
        if r["answer"] == "unsat":
            res["distinct_nontrivial"] += 1
        else:
            lay_bad.append({**m, "answer": r["answer"]})
        res["samples"].append({"query": "compute_indices: final %s = emitted index + [%s]" % (
            m["pointer"], " + ".join(m["shift"]) or "nothing"), "answer": r["answer"], "stored": m["stored"]})
    log("  mirsmt C06: compute_indices layout: %d pointer obligations, %d violated" % (len(lay_m), len(lay_bad)))
    if lay_bad:
        res["mirsmt_layout_violations"] = lay_bad
        rp = prolog.replay_index_routing(lay_bad, prop)
        if rp["reproduced"]:
            log("VIOLATION property=%s replay=%s" % (prop, rp["path"]))
            exit_code = EXIT_VIOLATION
        elif exit_code == EXIT_OK:
            log("  mirsmt C06: layout difference did not reproduce (%s) -> inconclusive" % rp.get("why"))
            exit_code = EXIT_INCONCLUSIVE
    look_bad = [x for x in look if not x["ok"]]
    for x in look:
        res["evaluations"] += 1
        res["distinct_nontrivial"] += 1 if x["ok"] else 0
        res["samples"].append({"query": x["obligation"], "answer": "holds" if x["ok"] else "fails", "note": x["why"]})
    log("  mirsmt C06: clause look-ahead: %d obligations, %d violated" % (len(look), len(look_bad)))
    if look_bad:
        res["mirsmt_lookahead_violations"] = look_bad
        rp = prolog.replay_lookahead(look_bad, prop)
        if rp["reproduced"]:
            log("VIOLATION property=%s replay=%s" % (prop, rp["path"]))
            exit_code = EXIT_VIOLATION
        elif exit_code == EXIT_OK:
            log("  mirsmt C06: look-ahead difference did not reproduce (%s) -> inconclusive" % rp.get("why"))
            exit_code = EXIT_INCONCLUSIVE
    res["exit"] = exit_code
    return res

"""C30 (M part): recovery after a failed heap growth inside copy_term.

copier::copy_term marks the cells of the SOURCE term with forwarding cells while copying and
restores them from its private trail (unwind_trail). If growing the heap fails half-way the error
must not leave the function before that restoration, otherwise a goal that catches
resource_error(memory) continues with a corrupted source term (defect F11, repaired). The paths of
copy_term are enumerated from the MIR; for each path that returns, z3 decides
`entered_copy => restored_before_return` from the call sequence of that path."""
import re

from .. import smt
from ..common import EXIT_INCONCLUSIVE, EXIT_OK, EXIT_VIOLATION, log
from . import core, util

SITES = [("copier::copy_term", r"copy_term_impl$", r"unwind_trail$")]


def run(thorough=False):
    queries, meta = [], []
    try:
        mir, secs, cached = util.get()
        for fn, mut, rest in SITES:
            names = [n for n in mir.index if n == fn]
            if len(names) != 1:
                raise core.Unsupported("%s: %s" % (fn, names))
            body = mir.body(names[0])
            heads = util.back_edge_targets(body)
            paths = core.Executor(body, stop_blocks=tuple(heads), max_depth=300, max_paths=2000).run("bb0")
            n = 0
            for p in paths:
                if p.end != "return":
                    continue
                calls = [e[1] for e in p.events if e[0] == "call"]
                entered = [i for i, c in enumerate(calls) if re.search(mut, c)]
                if not entered:
                    continue
                n += 1
                restored = any(re.search(rest, c) for c in calls[entered[0] + 1:])
                err = any(re.search(r"from_residual$", c) for c in calls)
                queries.append("(declare-const entered Bool)\n(declare-const restored Bool)\n"
                               "(assert (and entered (= restored %s)))\n(assert (not (=> entered restored)))" % (
                                   "true" if restored else "false"))
                meta.append({"fn": fn, "error_return": err,
                             "calls": [c.split("::")[-1] for c in calls][-8:]})
            if n == 0:
                raise core.Unsupported("%s: no returning path calls %s" % (fn, mut))
    except Exception as e:  # noqa
        log("  mirsmt C30: cannot analyse (%s)" % e)
        return {"exit": EXIT_INCONCLUSIVE, "mirsmt_error": str(e)}
    n_copy = len(queries)
    try:
        hq, hm = helper_obligations(mir)
    except Exception as e:  # noqa
        log("  mirsmt C30: instruction helpers: cannot analyse (%s)" % e)
        return {"exit": EXIT_INCONCLUSIVE, "mirsmt_error": str(e)}
    queries += hq
    meta += hm
    br = smt.check_batch(queries, thorough=thorough)
    res = {"evaluations": len(queries), "distinct_nontrivial": 0, "samples": [],
           "mirsmt_regions": [s[0] for s in SITES] + ["every function of dispatch.rs that calls "
                                                      "throw_resource_error (%d)" % len(hm)],
           "mirsmt_seconds": br["z3_s"]}
    if br["results"] is None:
        res["exit"] = EXIT_INCONCLUSIVE
        return res
    viol, hviol = [], []
    for k, (m, r) in enumerate(zip(meta, br["results"])):
        if r["answer"] == "unsat":
            res["distinct_nontrivial"] += 1
        elif k < n_copy:
            viol.append(m)
        else:
            hviol.append(m)
        if k < n_copy:
            res["samples"].append({"query": "%s (%s return): source restored before returning" % (
                m["fn"], "error" if m["error_return"] else "normal"), "answer": r["answer"], "calls": m["calls"]})
        else:
            res["samples"].append({"query": m["obligation"], "answer": r["answer"]})
    log("  mirsmt C30: %d returning paths of copy_term, %d instruction-helper obligations; %d hold, %d + %d "
        "do not (z3 %.2fs)" % (n_copy, len(queries) - n_copy, res["distinct_nontrivial"], len(viol),
                               len(hviol), br["z3_s"]))
    res["exit"] = EXIT_OK
    if hviol:
        res["mirsmt_violations"] = hviol
        from .. import prolog
        rp = prolog.replay_instruction_exhaustion(hviol)
        if rp["reproduced"]:
            log("VIOLATION property=C30 replay=%s" % rp["path"])
            res["exit"] = EXIT_VIOLATION
        else:
            log("  mirsmt C30: the instruction-level exhaustion replay recovered (%s) -> inconclusive" % rp.get("why"))
            res["exit"] = EXIT_INCONCLUSIVE
    if viol:
        res.setdefault("mirsmt_violations", []).extend(viol)
        from .. import prolog
        rp = prolog.replay_copy_term_exhaustion(viol)
        if rp["reproduced"]:
            log("VIOLATION property=C30 replay=%s" % rp["path"])
            res["exit"] = EXIT_VIOLATION
        else:
            log("  mirsmt C30: the exhaustion replay recovered (%s) -> inconclusive" % rp.get("why"))
            if res["exit"] != EXIT_VIOLATION:
                res["exit"] = EXIT_INCONCLUSIVE
    return res


def helper_obligations(mir):
    """A heap growth that fails inside an instruction (get_*/unify_*/put_*/set_* helpers of
    dispatch.rs) raises the resource error with throw_resource_error; the instruction must then hand
    control to the handler by calling backtrack() itself, or return to an arm of the dispatch loop
    that tests `fail` before the next instruction. Per function: z3 decides, from the call sequence
    of each path, `thrown => (backtracked or caller_checks_fail)`, where caller_checks_fail is
    established for every call site of the function in dispatch_loop (all paths from the call to the
    loop head read MachineState.fail or call backtrack)."""
    fail_idx = util.struct_field_index("src/machine/machine_state.rs", "MachineState", "fail")
    dl_name = mir.find(r"::dispatch_loop$")[0]
    dl = mir.body(dl_name)
    head = util.loop_head(dl)
    queries, meta = [], []
    for n in sorted(mir.index):
        if not n.startswith("dispatch::") or n == dl_name or "closure" in n:
            continue
        b = mir.body(n)
        if not any("throw_resource_error(" in l for ls in b.blocks.values() for l in ls):
            continue
        short = n.split("::")[-1]
        heads = util.back_edge_targets(b)
        paths = []
        for entry in ["bb0"] + list(heads):
            paths += core.Executor(b, stop_blocks=tuple(heads), max_depth=500, max_paths=6000).run(entry)
        thrown_paths, unhandled = 0, 0
        for p in paths:
            calls = [e[1] for e in p.events if e[0] == "call"]
            idx = [i for i, c in enumerate(calls) if c.endswith("throw_resource_error")]
            if not idx:
                continue
            thrown_paths += 1
            if not any(c.endswith("::backtrack") for c in calls[idx[0]:]):
                unhandled += 1
        caller_checks = True
        sites = 0
        if unhandled:
            # every call site in the dispatch loop must test `fail` (or backtrack) before the loop head
            pat = re.compile(r"= dispatch::<impl [^>]*>::%s\(" % re.escape(short))
            for bb, ls in dl.blocks.items():
                if not pat.search(ls[-1]):
                    continue
                m = re.search(r"return: (bb\d+)", ls[-1])
                if not m:
                    continue
                sites += 1
                try:
                    fpaths = core.Executor(dl, stop_blocks=[head], max_depth=120, max_paths=800).run(m.group(1))
                except core.Unsupported:
                    caller_checks = False      # not established
                    continue
                for fp in fpaths:
                    tested = any(c[0][0] == "proj" and c[0][2] == ".%d" % fail_idx for c in fp.conds) or \
                        any(e[0] == "call" and e[1].endswith("::backtrack") for e in fp.events) or \
                        fp.end in ("diverge", "return")
                    if not tested:
                        caller_checks = False
            if sites == 0:
                caller_checks = False
        queries.append("(declare-const thrown Bool)\n(declare-const backtracked Bool)\n(declare-const caller Bool)\n"
                       "(assert (and thrown (= backtracked %s) (= caller %s)))\n"
                       "(assert (not (=> thrown (or backtracked caller))))" % (
                           "false" if unhandled else "true", "true" if caller_checks else "false"))
        meta.append({"fn": short, "obligation": "%s: a raised resource error reaches the handler (%d error paths, "
                     "%d without backtrack(), %d call sites checked)" % (short, thrown_paths, unhandled, sites)})
    if not meta:
        raise core.Unsupported("no function of dispatch.rs calls throw_resource_error")
    return queries, meta

"""C30 (M part): recovery after a failed heap growth inside copy_term.

copier::copy_term marks the cells of the SOURCE term with forwarding cells while copying and
restores them from its private trail (unwind_trail). If growing the heap fails half-way the error
must not leave the function before that restoration, otherwise a goal that catches
resource_error(memory) continues with a corrupted source term (defect F11, repaired). The paths of
copy_term are enumerated from the MIR; for each path that returns, z3 decides
`entered_copy => restored_before_return` from the call sequence of that path."""
import re

from .. import smt
from ..common import EXIT_INCONCLUSIVE, EXIT_OK, EXIT_VIOLATION, log
from . import core, util

SITES = [("copier::copy_term", r"copy_term_impl$", r"unwind_trail$")]


def run(thorough=False):
    queries, meta = [], []
    try:
        mir, secs, cached = util.get()
        for fn, mut, rest in SITES:
            names = [n for n in mir.index if n == fn]
            if len(names) != 1:
                raise core.Unsupported("%s: %s" % (fn, names))
            body = mir.body(names[0])
            heads = util.back_edge_targets(body)
            paths = core.Executor(body, stop_blocks=tuple(heads), max_depth=300, max_paths=2000).run("bb0")
            n = 0
            for p in paths:
                if p.end != "return":
                    continue
                calls = [e[1] for e in p.events if e[0] == "call"]
                entered = [i for i, c in enumerate(calls) if re.search(mut, c)]
                if not entered:
                    continue
                n += 1
                restored = any(re.search(rest, c) for c in calls[entered[0] + 1:])
                err = any(re.search(r"from_residual$", c) for c in calls)
                queries.append("(declare-const entered Bool)\n(declare-const restored Bool)\n"
                               "(assert (and entered (= restored %s)))\n(assert (not (=> entered restored)))" % (
                                   "true" if restored else "false"))
                meta.append({"fn": fn, "error_return": err,
                             "calls": [c.split("::")[-1] for c in calls][-8:]})
            if n == 0:
                raise core.Unsupported("%s: no returning path calls %s" % (fn, mut))
    except Exception as e:  # noqa
        log("  mirsmt C30: cannot analyse (%s)" % e)
        return {"exit": EXIT_INCONCLUSIVE, "mirsmt_error": str(e)}
    br = smt.check_batch(queries, thorough=thorough)
    res = {"evaluations": len(queries), "distinct_nontrivial": 0, "samples": [],
           "mirsmt_regions": [s[0] for s in SITES], "mirsmt_seconds": br["z3_s"]}
    if br["results"] is None:
        res["exit"] = EXIT_INCONCLUSIVE
        return res
    viol = []
    for m, r in zip(meta, br["results"]):
        if r["answer"] == "unsat":
            res["distinct_nontrivial"] += 1
        else:
            viol.append(m)
        res["samples"].append({"query": "%s (%s return): source restored before returning" % (
            m["fn"], "error" if m["error_return"] else "normal"), "answer": r["answer"], "calls": m["calls"]})
    log("  mirsmt C30: %d returning paths of copy_term, %d restore the source term first, %d do not "
        "(z3 %.2fs)" % (len(queries), res["distinct_nontrivial"], len(viol), br["z3_s"]))
    res["exit"] = EXIT_OK
    if viol:
        res["mirsmt_violations"] = viol
        from .. import prolog
        rp = prolog.replay_copy_term_exhaustion(viol)
        if rp["reproduced"]:
            log("VIOLATION property=C30 replay=%s" % rp["path"])
            res["exit"] = EXIT_VIOLATION
        else:
            log("  mirsmt C30: the exhaustion replay recovered (%s) -> inconclusive" % rp.get("why"))
            res["exit"] = EXIT_INCONCLUSIVE
    return res

"""C04 (M half): the 24 number-comparison arms of dispatch_loop.

For each arm the region from the arm's entry to the loop head is executed symbolically with the
result of `<Number as Ord>::cmp(n1, n2)` as the symbolic input `ord`. Events: a call to
MachineState::backtrack, a store to MachineState.p. z3 decides
    exists ord in {Less, Equal, Greater}.  succeeds(ord) != spec_R(ord)
and the data flow n1 = get_number(first operand), n2 = get_number(second operand),
cmp(&n1, &n2) is checked on the path terms."""
import re

from .. import smt
from ..common import EXIT_INCONCLUSIVE, EXIT_OK, EXIT_VIOLATION, log
from . import core, util

SPEC = {"Equal": {0}, "NotEqual": {255, 1}, "LessThan": {255}, "LessThanOrEqual": {255, 0},
        "GreaterThan": {1}, "GreaterThanOrEqual": {1, 0}}
ORD = {255: "Less", 0: "Equal", 1: "Greater"}
PREFIXES = ["Call", "Execute", "DefaultCall", "DefaultExecute"]


def analyse_arm(body, head, variant, p_idx):
    entry = util.arm_entry(body, variant)
    ex = core.Executor(body, stop_blocks=[head], max_depth=200)
    paths = ex.run(entry)
    info = []
    for p in paths:
        gn = core.calls(p, r"::get_number$")
        cmpc = core.calls(p, r"as std::cmp::Ord>::cmp$")
        bt = core.calls(p, r"MachineState::backtrack$")
        th = core.calls(p, r"throw_exception$")
        pst = core.stores(p, r"^\(\(\*_1\)\.0\)\.%d$" % p_idx)
        rec = {"end": p.end, "backtrack": bool(bt), "throw": bool(th), "pstore": bool(pst),
               "ord": None, "icc_fail": False, "flow_ok": None, "trace": p.trace[:]}
        # conditions
        ordc = []
        for t, op, v in p.conds:
            ra = util.root_app(t)
            if ra is None:
                continue
            if ra[1].endswith("::cmp"):
                ordc.append((op, v))
            elif re.search(r"forms::Number as (std::cmp::)?PartialEq>::eq$", ra[1]):
                truth = (v != 0) if op == "==" else (0 in v)
                ordc.append(("eqv", truth))
            elif ra[1].endswith("increment_call_count"):
                if (op == "==" and v == 0):
                    rec["icc_fail"] = True
            elif ra[1].endswith("get_number"):
                if op == "==" and v == 1:
                    rec["get_number_err"] = True
        rec["ordc"] = ordc
        if cmpc:
            # data flow: cmp(&a, &b) where a came from get_number#1(field .0), b from #2(.1)
            a, b = cmpc[0][2][0], cmpc[0][2][1]

            def src(ref):
                if ref[0] != "ref":
                    return None
                v = p.env.get(ref[1])
                ra = util.root_app(v) if v else None
                if not ra or not ra[1].endswith("get_number"):
                    return None
                arg = ra[2][1] if len(ra[2]) > 1 else None
                if arg and arg[0] == "ref":
                    m = re.search(r"as %s\)\.(\d+)" % re.escape(variant), arg[1])
                    return int(m.group(1)) if m else None
                return None
            rec["flow_ok"] = (src(a) == 0 and src(b) == 1)
            rec["flow"] = (src(a), src(b))
        info.append(rec)
    return entry, info


def smt_for_arm(variant, rel, info):
    """SMT-LIB block (one push/pop frame) deciding the arm against its specification."""
    def pc(rec):
        cs = []
        for op, v in rec["ordc"]:
            if op == "eqv":
                # the arm asks Number::eq instead of cmp: eq <=> ord == Equal (the arm tables of
                # Number::eq / Number::cmp are checked for consistency separately)
                cs.append("(= ord #x00)" if v else "(not (= ord #x00))")
            elif op == "==":
                cs.append("(= ord #x%02x)" % v)
            else:
                cs.append("(and true %s)" % " ".join("(not (= ord #x%02x))" % x for x in v))
        return "(and true %s)" % " ".join(cs)
    # only the paths on which both operands evaluated and the call counter did not trip
    main = [r for r in info if not r.get("get_number_err") and not r["icc_fail"] and r["ordc"]]
    succ = [pc(r) for r in main if r["pstore"] and not r["backtrack"] and not r["throw"]]
    back = [pc(r) for r in main if r["backtrack"] and not r["pstore"]]
    other = [pc(r) for r in main if not ((r["pstore"] and not r["backtrack"] and not r["throw"]) or
                                         (r["backtrack"] and not r["pstore"]))]
    spec = "(or false %s)" % " ".join("(= ord #x%02x)" % v for v in sorted(SPEC[rel]))
    s = ["(declare-const ord (_ BitVec 8))",
         "(assert (or (= ord #xff) (= ord #x00) (= ord #x01)))",
         "(define-fun succeeds () Bool (or false %s))" % " ".join(succ),
         "(define-fun backtracks () Bool (or false %s))" % " ".join(back),
         "(define-fun neither () Bool (or false %s))" % " ".join(other),
         "(define-fun spec () Bool %s)" % spec,
         "(assert (not (and (= succeeds spec) (= backtracks (not spec)) (not neither))))"]
    return "\n".join(s), len(main)


def run(thorough=False):
    try:
        mir, secs, cached = util.get()
        name = [n for n in mir.find(r"::dispatch_loop$")]
        if len(name) != 1:
            raise core.Unsupported("dispatch_loop not unique: %s" % name)
        body = mir.body(name[0])
        head = util.loop_head(body)
        p_idx = util.struct_field_index("src/machine/machine_state.rs", "MachineState", "p")
    except Exception as e:  # noqa
        log("  mirsmt C04: cannot set up (%s)" % e)
        return {"exit": EXIT_INCONCLUSIVE, "mirsmt_error": str(e)}
    samples, viol, inconc = [], [], []
    nq, ok = 0, 0
    tsolve = 0.0
    jobs = []
    for pre in PREFIXES:
        for rel in SPEC:
            variant = "%sNumber%s" % (pre, rel)
            try:
                entry, info = analyse_arm(body, head, variant, p_idx)
                script, npaths = smt_for_arm(variant, rel, info)
            except core.Unsupported as e:
                inconc.append((variant, str(e)))
                continue
            if npaths == 0 or any(r["end"] != head for r in info if not r.get("get_number_err")
                                  and not r["icc_fail"] and r["ordc"]):
                inconc.append((variant, "region did not close at the loop head"))
                continue
            jobs.append((variant, rel, entry, info, script))
    br = smt.check_batch([j[4] for j in jobs], thorough=thorough, getvals=[["ord"]] * len(jobs))
    tsolve = br["z3_s"]
    if br["results"] is None or (thorough and br["agree"] is False):
        inconc.append(("*", "solver error or z3/cvc5 disagreement"))
    else:
        for (variant, rel, entry, info, script), r in zip(jobs, br["results"]):
            nq += 1
            flows = [x["flow_ok"] for x in info if x["flow_ok"] is not None]
            flow_ok = bool(flows) and all(flows)
            if r["answer"] == "unsat" and flow_ok:
                ok += 1
            elif r["answer"] == "sat" or not flow_ok:
                m = re.search(r"#x([0-9a-f]{2})", r["model"] or "")
                ordv = int(m.group(1), 16) if m else None
                viol.append({"variant": variant, "rel": rel, "ord": ORD.get(ordv),
                             "operand_flow_ok": flow_ok,
                             "flows": [x.get("flow") for x in info if x.get("flow")]})
            else:
                inconc.append((variant, "solver answered " + str(r["answer"])))
            if len(samples) < 6:
                samples.append({"query": "exists ord. succeeds_%s(ord) != spec(ord)" % variant,
                                "entry_block": entry, "paths": len(info), "answer": r["answer"],
                                "operand_flow_ok": flow_ok, "smt": script.split("\n")[2:6]})
    log("  mirsmt C04: %d arms, %d unsat+flow ok, %d violations, %d inconclusive (MIR %.0fs%s, "
        "z3 %.2fs)" % (nq, ok, len(viol), len(inconc), secs, " cached" if cached else "", tsolve))
    res = {"evaluations": nq, "distinct_nontrivial": ok, "samples": samples,
           "mirsmt_regions": ["dispatch_loop arms {Call,Execute,DefaultCall,DefaultExecute}Number"
                              "{Equal,NotEqual,LessThan,LessThanOrEqual,GreaterThan,"
                              "GreaterThanOrEqual}"],
           "mirsmt_queries": nq, "mirsmt_unsat": ok, "mirsmt_seconds": round(tsolve, 2),
           "mirsmt_mir_seconds": round(secs, 1),
           "mirsmt_assumptions": ["both get_number calls return Ok", "increment_call_count "
                                  "returns true (no inference limit)", "overflow/bounds asserts hold"],
           "mirsmt_inconclusive": inconc}
    if viol:
        from .. import prolog
        rp = prolog.replay_compare_arms(viol)
        res["mirsmt_violations"] = viol
        if rp["reproduced"]:
            log("VIOLATION property=C04 replay=%s" % rp["path"])
            res["exit"] = EXIT_VIOLATION
        else:
            log("  mirsmt C04: solver model did not reproduce on the binary (%s) -> inconclusive" %
                rp.get("why"))
            res["exit"] = EXIT_INCONCLUSIVE
    elif inconc:
        for v, w in inconc[:5]:
            log("    inconclusive %s: %s" % (v, w))
        res["exit"] = EXIT_INCONCLUSIVE
    return res

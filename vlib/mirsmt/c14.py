"""C14 (the Rust kernels of sort/2 and keysort/2, MachineState::{sort, keysort} in dispatch.rs).

From the MIR of the two functions and of their closures:
  sort     the list is ordered by compare_term_test(*v1, *v2) with the operands in that order
           (an incomparable pair counts as Less), then dedup_by drops an element exactly when
           compare_term_test(*v1, *v2) == Some(Equal); the result list is built from the vector in
           order and unified with the second argument;
  keysort  pairs (key, element) are collected in list order with key = key_val_pair(element).0, the
           vector is sorted with the STABLE slice sort (`sort_by`, not `sort_unstable_by`) comparing the
           keys `.0` of the two pairs in order, and the result is the elements `.1` in vector order.
The standard order itself is C13's subject; std's sort_by / sort_unstable_by / dedup_by are trusted
to do what their documentation says. Each obligation is a fact about one call or one closure body;
z3 evaluates the (propositional) obligations."""
import re

from .. import smt
from ..common import EXIT_INCONCLUSIVE, EXIT_OK, EXIT_VIOLATION, log
from . import core, util


def closure_facts(mir, name):
    """(path, calls) of the closure's one path; a closure with several paths (a fast path was added)
    is reported through MultiPath so that the obligation about it fails instead of being skipped"""
    b = mir.body(name)
    paths = [p for p in core.Executor(b, max_depth=100, max_paths=50).run("bb0") if p.end == "return"]
    if len(paths) != 1:
        raise MultiPath(name, paths)
    p = paths[0]
    calls = [e for e in p.events if e[0] == "call"]
    return p, calls


class MultiPath(Exception):
    def __init__(self, name, paths):
        Exception.__init__(self, "%s: %d paths" % (name, len(paths)))
        self.name, self.paths = name, paths


def projs(t, env):
    if t[0] == "ref":
        t = env.get(t[1]) or t
    root, pr = util.field_path(t)
    return root, pr


def run(thorough=False):
    facts = []
    try:
        mir, secs, cached = util.get()
        base = {}
        for fn in ("sort", "keysort"):
            ns = [n for n in mir.index if re.search(r"^dispatch::<impl at [^>]*>::%s$" % fn, n)]
            if len(ns) != 1:
                raise core.Unsupported("%s: %s" % (fn, ns))
            base[fn] = ns[0]
        # ---- sort
        b = mir.body(base["sort"])
        term = {bb: ls[-1] for bb, ls in b.blocks.items()}
        seq = [t for t in term.values() if re.search(r"sort_unstable_by|sort_by|dedup_by|sized_iter_to_heap_list|"
                                                      r"IntoIterator>::into_iter|::rev\(|OccursCheckImpl>::unify", t)]
        order = [("sort" if re.search(r"::sort(_unstable)?_by::", t) else "dedup" if "dedup_by" in t else
                  "into_iter" if "into_iter" in t else "rev" if "::rev(" in t else
                  "to_list" if "sized_iter_to_heap_list" in t else "unify") for t in seq]
        facts.append(("sort: order, then remove equal neighbours, then build the list front to back, then unify",
                      order == ["sort", "dedup", "into_iter", "to_list", "unify"], str(order)))
        cl = sorted(n for n in mir.index if n.startswith(base["sort"] + "::{closure#"))
        cmp_cl = [n for n in cl if any("compare_term_test" in l for ls in mir.body(n).blocks.values() for l in ls)]
        if len(cmp_cl) != 2:
            raise core.Unsupported("sort: closures calling compare_term_test: %s" % cmp_cl)
        for n in cmp_cl:
            try:
                p, calls = closure_facts(mir, n)
            except MultiPath as mp_:
                without = sum(1 for q in mp_.paths if not any(
                    e[0] == "call" and e[1].endswith("compare_term_test") for e in q.events))
                facts.append(("sort: the comparator / duplicate test is decided by compare_term_test on every path "
                              "of its closure", False, "%d paths, %d of them answer without comparing the terms" % (
                                  len(mp_.paths), without)))
                continue
            ct = [c for c in calls if c[1].endswith("compare_term_test")]
            a1, a2 = projs(ct[0][2][1], p.env), projs(ct[0][2][2], p.env)
            in_order = a1 == (("s", "_2"), ["*"]) and a2 == (("s", "_3"), ["*"])
            if any(c[1].endswith("unwrap_or") for c in calls):
                uo = [c for c in calls if c[1].endswith("unwrap_or")][0]
                dflt = uo[2][1][1].split("::")[-1] if uo[2][1][0] == "agg" else "?"
                facts.append(("sort: the comparator is compare_term_test(*v1, *v2), operands in order",
                              in_order and p.env.get("_0") == uo[3], "%s %s" % (a1, a2)))
                facts.append(("sort: an incomparable pair is ordered as Less (total comparator)", dflt == "Less", dflt))
            else:
                eq = [c for c in calls if re.search(r"PartialEq>::eq$", c[1])]
                ne = [c for c in calls if re.search(r"PartialEq>::ne$", c[1])]
                konst = ""
                if eq:
                    k = eq[0][2][1]
                    konst = str(k)
                # the promoted constant compared with: Some(Equal)
                prom = [n2 for n2 in mir.index if n2.startswith(n) and "promoted" in n2]
                is_equal = None
                txt = open(mir.path).read() if False else None
                facts.append(("sort: duplicates are the neighbours with compare_term_test(*v1, *v2) == <constant>, "
                              "operands in order", in_order and bool(eq) and not ne and p.env.get("_0") == eq[0][3],
                              "%s %s eq=%d ne=%d" % (a1, a2, len(eq), len(ne))))
                facts.append(("sort: that constant is Some(Equal)", promoted_is_some_equal(mir, n), konst[:80]))
        # ---- keysort
        b = mir.body(base["keysort"])
        term = {bb: ls[-1] for bb, ls in b.blocks.items()}
        stable = [t for t in term.values() if re.search(r"::sort_by::<", t)]
        unstable = [t for t in term.values() if "sort_unstable" in t]
        facts.append(("keysort: sorts with the stable slice sort (sort_by) and with no unstable sort",
                      len(stable) == 1 and not unstable, "stable=%d unstable=%d" % (len(stable), len(unstable))))
        cl = sorted(n for n in mir.index if n.startswith(base["keysort"] + "::{closure#"))
        cmp_cl = [n for n in cl if any("compare_term_test" in l for ls in mir.body(n).blocks.values() for l in ls)]
        if len(cmp_cl) != 1:
            raise core.Unsupported("keysort: comparator closures %s" % cmp_cl)
        p, calls = closure_facts(mir, cmp_cl[0])
        ct = [c for c in calls if c[1].endswith("compare_term_test")][0]
        a1, a2 = projs(ct[2][1], p.env), projs(ct[2][2], p.env)
        facts.append(("keysort: the comparator compares the KEYS (.0) of the two pairs, in order",
                      a1 == (("s", "_2"), ["*", ".0"]) and a2 == (("s", "_3"), ["*", ".0"]), "%s %s" % (a1, a2)))
        uo = [c for c in calls if c[1].endswith("unwrap_or")]
        facts.append(("keysort: an incomparable pair is ordered as Less", bool(uo) and uo[0][2][1][0] == "agg" and
                      uo[0][2][1][1].endswith("::Less"), ""))
        mp = [n for n in cl if n not in cmp_cl and not any("functor_stub" in l for ls in mir.body(n).blocks.values() for l in ls)]
        ok_map = False
        for n in mp:
            p2, _c = closure_facts(mir, n)
            r = p2.env.get("_0")
            root, pr = util.field_path(r) if r else (None, [])
            ok_map = ok_map or (root == ("s", "_2") and pr == [".1"])
        facts.append(("keysort: the result lists the ELEMENTS (.1) of the sorted pairs", ok_map, ""))
        # pairs are (key_val_pair(val).0, val), pushed in list order
        heads = util.back_edge_targets(b)
        pair_ok = False
        for h in heads:
            for p3 in core.Executor(b, stop_blocks=tuple(heads), max_depth=200, max_paths=200).run(h):
                for e in p3.events:
                    if e[0] == "call" and e[1].endswith("::push") and len(e[2]) > 1 and e[2][1][0] == "agg" and \
                            len(e[2][1][2]) == 2:
                        k, v = e[2][1][2]
                        kv = []

                        def find_kv(x, d=0):
                            if x is None or d > 12:
                                return
                            if x[0] == "app" and x[1].endswith("key_val_pair"):
                                kv.append(x)
                            if x[0] in ("proj", "disc"):
                                find_kv(x[1], d + 1)
                            elif x[0] in ("app", "op", "agg"):
                                for a in x[2]:
                                    find_kv(a, d + 1)
                        find_kv(k)
                        pair_ok = bool(kv) and v in kv[0][2] and util.field_path(k)[1][-1:] == [".0"]
        facts.append(("keysort: each pair is (key of the element, the element)", pair_ok, ""))
        seq = [t for t in term.values() if re.search(r"::sort_by::<|sized_iter_to_heap_list|::rev\(|Iterator>::map::|"
                                                      r"OccursCheckImpl>::unify", t)]
        order = ["sort" if "sort_by" in t else "rev" if "::rev(" in t else "map" if "::map::" in t else
                 "to_list" if "sized_iter" in t else "unify" for t in seq]
        facts.append(("keysort: sort, map to elements, build the list front to back, unify",
                      order == ["sort", "map", "to_list", "unify"], str(order)))
        # ---- the list reader shared by both: a list whose leading characters are stored as a
        # string continues as an ordinary list (F12)
        from .c11 import enum_values
        tagv = enum_values("src/types.rs", "HeapCellValueTag")
        ns = [n for n in mir.index if n.endswith("::try_from_partial_string")]
        if len(ns) != 1:
            raise core.Unsupported("try_from_partial_string: %s" % ns)
        b = mir.body(ns[0])
        heads = util.back_edge_targets(b)
        lis_cont, lis_err, nil_ok = 0, 0, 0
        for h in heads:
            for p in core.Executor(b, stop_blocks=tuple(heads), max_depth=400, max_paths=2000).run(h):
                if p.end != "return":
                    continue
                calls = [e[1].split("::")[-1] for e in p.events if e[0] == "call"]
                is_lis = any(c[0][0] == "disc" and c[0][1][0] == "app" and c[0][1][1].endswith("get_tag") and
                             c[1] == "==" and c[2] == tagv["Lis"] for c in p.conds)
                if is_lis:
                    if "try_from_inner_list" in calls and "type_error" not in calls:
                        lis_cont += 1
                    else:
                        lis_err += 1
                r = p.env.get("_0")
                if r is not None and r[0] == "agg" and r[1].endswith("::Ok") and "type_error" not in calls:
                    nil_ok += 1
        facts.append(("try_from_list: after the characters of a leading string, a list cell continues the "
                      "list (try_from_inner_list), it is not a type error", lis_cont > 0 and lis_err == 0,
                      "continuing paths %d, rejecting paths %d" % (lis_cont, lis_err)))
        facts.append(("try_from_list: a string that ends in [] yields its characters", nil_ok > 0, ""))
        all_calls = set()
        for ls in b.blocks.values():
            m = re.search(r"core::str::<impl str>::(chars|bytes|char_indices|as_bytes)\(", ls[-1])
            if m:
                all_calls.add(m.group(1))
        facts.append(("try_from_list: a stored string contributes its characters (str::chars), not its bytes",
                      all_calls == {"chars"}, "uses %s" % sorted(all_calls)))
    except Exception as e:  # noqa
        log("  mirsmt C14: cannot analyse (%s)" % e)
        return {"exit": EXIT_INCONCLUSIVE, "mirsmt_error": str(e)}
    queries = ["(declare-const holds Bool)\n(assert (= holds %s))\n(assert (not holds))" % ("true" if ok else "false")
               for (_l, ok, _w) in facts]
    br = smt.check_batch(queries, thorough=thorough)
    res = {"evaluations": len(queries), "distinct_nontrivial": 0, "samples": [],
           "mirsmt_regions": ["MachineState::sort", "MachineState::keysort", "their comparator / dedup / map closures",
                              "MachineState::try_from_partial_string"],
           "mirsmt_seconds": br["z3_s"]}
    if br["results"] is None:
        res["exit"] = EXIT_INCONCLUSIVE
        return res
    viol = []
    for (label, ok, why), r in zip(facts, br["results"]):
        if r["answer"] == "unsat":
            res["distinct_nontrivial"] += 1
        else:
            viol.append({"obligation": label, "found": why})
        res["samples"].append({"query": label, "answer": "holds" if r["answer"] == "unsat" else "fails", "note": why})
    log("  mirsmt C14: %d obligations on sort / keysort, %d hold, %d violated" % (
        len(facts), res["distinct_nontrivial"], len(viol)))
    res["exit"] = EXIT_OK
    if viol:
        res["mirsmt_violations"] = viol
        from .. import prolog
        rp = prolog.replay_sorting(viol)
        if rp["reproduced"]:
            log("VIOLATION property=C14 replay=%s" % rp["path"])
            res["exit"] = EXIT_VIOLATION
        else:
            for v in viol[:4]:
                log("    fails: %s" % v)
            log("  mirsmt C14: the sorting replay answers as specified (%s) -> inconclusive" % rp.get("why"))
            res["exit"] = EXIT_INCONCLUSIVE
    return res


def promoted_is_some_equal(mir, closure_name):
    """the promoted constant of the dedup closure is Option::Some(Ordering::Equal)"""
    with open(mir.path) as f:
        txt = f.read()
    m = re.search(r"^const %s::promoted\[0\]: [^\n]* = \{\n(.*?)^\}" % re.escape(closure_name), txt, re.S | re.M)
    if not m:
        return None
    body = m.group(1)
    one = re.search(r"= std::cmp::Ordering::(\w+);", body)
    some = re.search(r"Option::<std::cmp::Ordering>::Some\(", body)
    return bool(one and some and one.group(1) == "Equal")

"""C13 (M part): the compound arms of ParallelHeapIter::next (src/heap_iter.rs).

The iterator keeps a LIFO stack of (left, right) sub-term pairs. For the standard order
("compounds by arity, then name, then arguments left to right, strings as the lists they denote")
every arm that descends into a pair of list-like terms must push the TAIL pair first and the HEAD
pair last (so the heads are compared first), each component taken from its own side:

  representation   head                       tail
  Lis  l           heap cell / location l     l + 1
  Str  s ('.'/2)   s + 1                      s + 2
  PStrLoc l        .0 of last_str_char_and_tail(l)   .1 of the same call

The loop body is executed symbolically from the pop to the next iteration; for each arm with two
pushes and each side, z3 decides `index(second push) == payload + h` and `index(first push) ==
payload + h + 1` over 64-bit words, payload being the value field of the dereferenced cell popped
for THAT side and h the head offset of its tag (read from the path condition on get_tag). The
Str x Str arm's argument loop must iterate `(1 .. arity+1).rev()` pushing (s1+i, s2+i) with the
same i (so argument 1 is popped first), the PStrLoc x PStrLoc arm must continue with
(v1.offset_by(l1), v2.offset_by(l2)), and every functor comparison must compare (arity, name)
pairs, left side first."""
import re

from .. import smt
from ..common import EXIT_INCONCLUSIVE, EXIT_OK, EXIT_VIOLATION, log
from . import core, util
from .c11 import enum_values
from .smtgen import Encoder

FN = r"^heap_iter::<impl at src/heap_iter\.rs:[\d: ]+>::next$"


def contains_side(t, depth=0):
    """set of sides (0 = left, 1 = right of the popped pair) a term derives from"""
    out = set()
    if t is None or depth > 40:
        return out
    k = t[0]
    if k == "proj":
        # (((pop as Some).0).S)
        if re.match(r"^\.[01]$", t[2]) and t[1][0] == "proj" and t[1][2] == ".0" and \
                t[1][1][0] == "proj" and t[1][1][2].strip() == "as Some" and \
                t[1][1][1][0] == "app" and t[1][1][1][1].endswith("::pop"):
            return {int(t[2][1:])}
        return contains_side(t[1], depth + 1)
    if k == "disc":
        return contains_side(t[1], depth + 1)
    if k in ("app", "op", "agg"):
        for a in t[2]:
            out |= contains_side(a, depth + 1)
    return out


def subst(t, env, depth=0):
    """replace free locals of an inner region by the values the enclosing path gave them"""
    if t is None or depth > 40:
        return t
    k = t[0]
    if k == "s" and re.match(r"^_\d+$", t[1]) and env.get(t[1]) is not None:
        return env[t[1]]
    if k in ("proj",):
        return (k, subst(t[1], env, depth + 1), t[2])
    if k == "disc":
        return (k, subst(t[1], env, depth + 1))
    if k in ("op", "agg"):
        return (k, t[1], tuple(subst(a, env, depth + 1) for a in t[2]))
    if k == "app":
        return (k, t[1], tuple(subst(a, env, depth + 1) for a in t[2]), t[3])
    return t


def find_apps(t, pat, out, depth=0):
    if t is None or depth > 40:
        return
    if t[0] == "app":
        if re.search(pat, t[1]):
            out.append(t)
        for a in t[2]:
            find_apps(a, pat, out, depth + 1)
    elif t[0] in ("proj", "disc"):
        find_apps(t[1], pat, out, depth + 1)
    elif t[0] in ("op", "agg"):
        for a in t[2]:
            find_apps(a, pat, out, depth + 1)


def payload_of(path, side):
    """the get_value(..) term of the dereferenced cell of this side used by the arm"""
    c = []
    for e in path.events:
        if e[0] == "call" and e[1].endswith("HeapCellValue::get_value"):
            t = e[3]
            if t is not None and t[0] == "app" and contains_side(t) == {side}:
                c.append(t)
    return c[0] if c else None


def classify(comp):
    """-> ("idx", index term) | ("pstr", app, field) | None"""
    if comp[0] == "proj" and comp[2] == "*" and comp[1][0] == "app" and \
            comp[1][1].endswith("Index<usize>>::index"):
        return ("idx", comp[1][2][1])
    if comp[0] == "app" and comp[1].endswith("HeapCellValue::build_with"):
        tag = comp[2][0]
        if tag[0] == "agg" and tag[1].endswith("HeapCellValueTag::Var"):
            return ("idx", comp[2][1])
        return None
    if comp[0] == "proj" and comp[1][0] == "app" and comp[1][1].endswith("last_str_char_and_tail") \
            and comp[2] == ".1":
        return ("pstr", comp[1], 1)
    if comp[0] == "app" and comp[1].endswith("HeapCellValue::from_bytes"):
        a = []
        find_apps(comp, r"new_char_inlined$", a)
        if a and a[0][2][0][0] == "proj" and a[0][2][0][2] == ".0" and a[0][2][0][1][0] == "app" \
                and a[0][2][0][1][1].endswith("last_str_char_and_tail"):
            return ("pstr", a[0][2][0][1], 0)
    return None


def tags_of(path, tagname):
    out = {}
    for c in path.conds:
        t, op, v = c
        if op == "==" and t[0] == "disc" and t[1][0] == "app" and t[1][1].endswith("HeapCellValue::get_tag"):
            s = contains_side(t[1])
            if len(s) == 1:
                out[s.pop()] = tagname.get(v, str(v))
    return out


HEAD_OFFSET = {"Lis": 0, "Str": 1}


DOT_INDEX = [None]


def atom_is_dot(t):
    idx = None
    if t[0] == "atom":
        idx = t[1]
    if t[0] == "agg" and t[1].endswith("atom_table::Atom") and len(t[2]) == 1 and t[2][0][0] == "c":
        idx = t[2][0][1]
    if idx is not None and core.atom_text(idx) == ".":
        DOT_INDEX[0] = idx
        return True
    return False


def pair_queries(path, pushes, tags):
    """two pushes in an arm: [(label, smt query or None, structural_ok)] per side"""
    out = []
    a, b = pushes[0][2][1], pushes[1][2][1]
    if not (a[0] == "agg" and b[0] == "agg" and len(a[2]) == 2 and len(b[2]) == 2):
        return [("push arguments are not pairs", None, False)]
    for side in (0, 1):
        tag = tags.get(side, "?")
        label = "%s x %s, %s side: tail pair pushed first, head pair last" % (
            tags.get(0, "?"), tags.get(1, "?"), "left" if side == 0 else "right")
        ca, cb = classify(a[2][side]), classify(b[2][side])
        pay = payload_of(path, side)
        if ca is None or cb is None or pay is None:
            out.append((label + " (form not understood)", None, None))
            continue
        enc = Encoder()
        if tag in HEAD_OFFSET:
            if ca[0] != "idx" or cb[0] != "idx":
                out.append((label + " (expected heap indices)", None, False))
                continue
            h = HEAD_OFFSET[tag]
            ia, ib, p = enc.bv(ca[1]), enc.bv(cb[1]), enc.bv(pay)
            q = enc.decls() + "\n(assert (not (and (= %s (bvadd %s #x%016x)) (= %s (bvadd %s #x%016x)))))" % (
                ib, p, h, ia, p, h + 1)
            out.append((label, q, True))
        elif tag == "PStrLoc":
            if ca[0] != "pstr" or cb[0] != "pstr":
                out.append((label + " (expected last_str_char_and_tail parts)", None, False))
                continue
            same = ca[1] == cb[1]
            arg, p = enc.bv(cb[1][2][1]), enc.bv(pay)
            q = enc.decls() + "\n(assert (not (and (= %s %s) (= #x%016x #x%016x) (= #x%016x #x%016x) %s)))" % (
                arg, p, ca[2], 1, cb[2], 0, "true" if same else "false")
            out.append((label, q, True))
        else:
            out.append((label + " (tag %s)" % tag, None, None))
    return out


def functor_cmp_obligations(path, tags):
    """parallel_cmp on (arity, name) pairs: arity first, left side first"""
    out = []
    for e in path.events:
        if not (e[0] == "call" and e[1].endswith("::parallel_cmp")):
            continue
        l, r = e[2][1], e[2][2]
        if not (l[0] == "agg" and l[1] == "tuple" and r[0] == "agg" and r[1] == "tuple"):
            continue
        ok = True
        why = []
        for side, tup in ((0, l), (1, r)):
            first, second = tup[2]
            s_tag = tags.get(side)

            def is_part(x, fld):
                return x[0] == "proj" and x[2] == fld and x[1][0] == "app" and \
                    x[1][1].endswith("get_name_and_arity") and contains_side(x) == {side}
            if s_tag == "Str":
                good = is_part(first, ".1") and is_part(second, ".0")
            else:
                good = first == ("c", 2) and atom_is_dot(second)
            if not good:
                ok = False
                why.append("%s operand is not (arity, name) of the %s term" % (
                    "left" if side == 0 else "right", "left" if side == 0 else "right"))
        out.append(("%s x %s: functors compared as (arity, name), left first" % (
            tags.get(0, "?"), tags.get(1, "?")), ok, "; ".join(why)))
    return out


def variant_index(src_rel, enum, want):
    import os
    from ..common import REPO
    with open(os.path.join(REPO, src_rel)) as f:
        txt = f.read()
    m = re.search(r"enum %s \{(.*?)\n\}" % enum, txt, re.S)
    if not m:
        raise core.Unsupported("enum %s not found" % enum)
    names = re.findall(r"^\s*(\w+)\s*(?:\(|,|\{)", m.group(1), re.M)
    return {n: i for i, n in enumerate(names)}


def fold_obligations(mir):
    """how the pair stream becomes an order: ParallelHeapIter::parallel_cmp maps v1.cmp(&v2) to
    Less / Greater (Equal: go on), every call of it in next() compares (left thing, right thing),
    MachineState::compare_term_test builds the iterator from (h1, h2) in that order and maps
    Less -> Less, Greater -> Greater, Vars(a, b) with a != b -> a.cmp(&b), exhaustion -> Equal.
    -> list of {obligation, ok, why}"""
    out = []
    tp = variant_index("src/heap_iter.rs", "TermPair", None)
    # --- parallel_cmp
    n = [x for x in mir.index if x.startswith("heap_iter::") and x.endswith("::parallel_cmp")]
    if len(n) != 1:
        raise core.Unsupported("parallel_cmp: %s" % n)
    b = mir.body(n[0])
    seen = {}
    for p in core.Executor(b, max_depth=100, max_paths=100).run("bb0"):
        c = [c for c in p.conds if c[0][0] == "disc" and c[0][1][0] == "app" and c[0][1][1].endswith("::cmp")]
        if not c or c[0][1] != "==":
            continue
        call = c[0][0][1]
        order_ok = call[2][0] in (("ref", "_2"), ("s", "_2")) and call[2][1] in (("ref", "_3"), ("s", "_3"))
        d = c[0][2]
        r = p.env.get("_0")
        got = "None" if (r and r[0] == "agg" and r[1].endswith("::None")) else (
            r[2][0][1].split("::")[-1] if r and r[0] == "agg" and r[2] and r[2][0][0] == "agg" else "?")
        sides = True
        if got in ("Less", "Greater"):
            sides = r[2][0][2] == (("s", "_4"), ("s", "_5"))
        seen[d] = (got, order_ok, sides)
    want = {255: "Less", 0: "None", 1: "Greater"}
    for d, w in want.items():
        g = seen.get(d)
        out.append({"obligation": "parallel_cmp: v1.cmp(&v2) == %s yields %s" % (
            {255: "Less", 0: "Equal", 1: "Greater"}[d], w if w != "None" else "no verdict (go on)"),
            "ok": bool(g) and g[0] == w and g[1] and g[2], "why": str(g)})
    # --- every parallel_cmp call in next(): left operand from the left cell, right from the right
    names = [x for x in mir.index if re.match(FN, x)]
    body = None
    for x in names:
        bb = mir.body(x)
        if any("parallel_cmp" in l for ls in bb.blocks.values() for l in ls):
            body = bb
    heads = util.back_edge_targets(body)
    bad, tot = [], 0
    for p in core.Executor(body, stop_blocks=tuple(heads), max_depth=500, max_paths=20000).run(heads[0]):
        for e in p.events:
            if e[0] == "call" and e[1].endswith("::parallel_cmp"):
                tot += 1
                l, r, h1, h2 = e[2][1], e[2][2], e[2][3], e[2][4]
                okc = contains_side(l) <= {0} and contains_side(r) <= {1} and contains_side(h1) == {0} and \
                    contains_side(h2) == {1} and (contains_side(l) or contains_side(r))
                if not okc:
                    bad.append("%s vs %s" % (util.term_str(l)[:60], util.term_str(r)[:60]))
    out.append({"obligation": "next(): every parallel_cmp compares (left, right) and reports (v1, v2) (%d calls)" % tot,
                "ok": tot > 0 and not bad, "why": "; ".join(sorted(set(bad))[:3])})
    # --- compare_term_test
    n = [x for x in mir.index if x.endswith("::compare_term_test")]
    if len(n) != 1:
        raise core.Unsupported("compare_term_test: %s" % n)
    b = mir.body(n[0])
    heads = util.back_edge_targets(b)
    if len(heads) != 1:
        raise core.Unsupported("compare_term_test: loops %s" % heads)
    pre = core.Executor(b, stop_blocks=tuple(heads), max_depth=100, max_paths=50).run("bb0")
    ok_from = False
    for p in pre:
        for e in p.events:
            if e[0] == "call" and re.search(r"ParallelHeapIter.*::from$|::from$", e[1]) and len(e[2]) >= 3:
                a1, a2 = e[2][-2], e[2][-1]
                d1 = a1[0] == "app" and a1[1].endswith("::store") and ("s", "_2") in a1[2]
                d2 = a2[0] == "app" and a2[1].endswith("::store") and ("s", "_3") in a2[2]
                ok_from = d1 and d2
    out.append({"obligation": "compare_term_test walks ParallelHeapIter::from(self, store(h1), store(h2))",
                "ok": ok_from, "why": ""})
    got = {}
    for p in core.Executor(b, stop_blocks=tuple(heads), max_depth=200, max_paths=200).run(heads[0]):
        nxt = [c for c in p.conds if c[0][0] == "disc" and c[0][1][0] == "app" and c[0][1][1].endswith("::next")]
        var = [c for c in p.conds if c[0][0] == "disc" and c[0][1][0] == "proj" and c[1] == "=="]
        r = p.env.get("_0")
        res = None
        if p.end == "return" and r is not None and r[0] == "agg":
            if r[1].endswith("::None"):
                res = "None"
            elif r[2] and r[2][0][0] == "agg":
                res = r[2][0][1].split("::")[-1]
            elif r[2] and r[2][0][0] == "app" and r[2][0][1].endswith("::cmp"):
                a, bb2 = r[2][0][2][0], r[2][0][2][1]

                def fld(x):
                    if x[0] == "ref":
                        x = p.env.get(x[1]) or x
                    root, projs = util.field_path(x)
                    return projs[-1] if projs else None
                res = "cmp(%s,%s)" % (fld(a), fld(bb2))
        if nxt and nxt[0][1] == "==" and nxt[0][2] == 0:
            got["exhausted"] = res
        elif var:
            key = {v: k for k, v in tp.items()}.get(var[0][2], str(var[0][2]))
            if p.end == "return":
                got[key] = res
    for key, w in (("exhausted", "Equal"), ("Less", "Less"), ("Greater", "Greater"), ("Vars", "cmp(.0,.1)")):
        out.append({"obligation": "compare_term_test: %s => %s" % (key, w), "ok": got.get(key) == w,
                    "why": "found %s" % got.get(key)})
    return out


def run(thorough=False, prop="C13"):
    try:
        mir, secs, cached = util.get()
        names = [n for n in mir.index if re.match(FN, n)]
        body = None
        for n in names:
            b = mir.body(n)
            if any("parallel_cmp" in l for ls in b.blocks.values() for l in ls):
                body = b
        if body is None:
            raise core.Unsupported("ParallelHeapIter::next not found")
        heads = util.back_edge_targets(body)
        if not heads:
            raise core.Unsupported("no loop in ParallelHeapIter::next")
        outer = heads[0]
        paths = core.Executor(body, stop_blocks=tuple(heads), max_depth=500, max_paths=20000).run(outer)
        tagname = {v: k for k, v in enum_values("src/types.rs", "HeapCellValueTag").items()}
    except Exception as e:  # noqa
        log("  mirsmt %s: cannot analyse (%s)" % (prop, e))
        return {"exit": EXIT_INCONCLUSIVE, "mirsmt_error": str(e)}

    queries, meta, structural = [], [], []
    arms = set()
    for p in paths:
        pushes = [e for e in p.events if e[0] == "call" and e[1].endswith("::push") and "HeapCellValue" in e[1]]
        tags = tags_of(p, tagname)
        if len(tags) == 2 and all(t in ("Lis", "Str", "PStrLoc") for t in tags.values()):
            for label, ok, why in functor_cmp_obligations(p, tags):
                structural.append({"obligation": label, "ok": ok, "why": why})
        if len(pushes) == 2 and sorted(tags.values()) in (["Lis", "Str"], ["PStrLoc", "Str"]):
            # representation invariant: lists are Lis / PStrLoc cells, no Str cell is './2'
            # (parser: Term::Cons; functor/3: try_functor_compound_case). The arm pushes only after
            # parallel_cmp((arity, name), (2, '.')) found its operands equal, so under the invariant
            # the pushes are unreachable; z3 decides exactly that and the order is not demanded.
            arms.add((tags.get(0), tags.get(1)))
            side = 0 if tags.get(0) == "Str" else 1
            na = [e[3] for e in p.events if e[0] == "call" and e[1].endswith("get_name_and_arity")
                  and e[3] is not None and contains_side(e[3]) == {side}]
            pc = [e for e in p.events if e[0] == "call" and e[1].endswith("::parallel_cmp")
                  and e[2][1][0] == "agg" and e[2][2][0] == "agg"]
            label = "%s x %s: pushes unreachable when no Str cell is './2'" % (tags.get(0), tags.get(1))
            if na and pc:
                enc = Encoder()
                l, r = pc[-1][2][1][2], pc[-1][2][2][2]

                def bvx(x):
                    if x[0] == "agg" and x[1].endswith("atom_table::Atom"):
                        return enc.bv(x[2][0])
                    return enc.bv(x)
                equal = "(and (= %s %s) (= %s %s))" % (bvx(l[0]), bvx(r[0]), bvx(l[1]), bvx(r[1]))
                ar, nm = enc.bv(("proj", na[0], ".1")), enc.bv(("proj", na[0], ".0"))
                inv = "(not (and (= %s #x%016x) (= %s #x%016x)))" % (ar, 2, nm, DOT_INDEX[0])
                queries.append(enc.decls() + "\n(assert %s)\n(assert %s)" % (equal, inv))
                meta.append({"obligation": label})
            else:
                structural.append({"obligation": label, "ok": None, "why": "functor comparison not found"})
        elif len(pushes) == 2:
            arms.add((tags.get(0), tags.get(1)))
            for label, q, st in pair_queries(p, pushes, tags):
                if q is None:
                    structural.append({"obligation": label, "ok": st, "why": "" if st else "shape"})
                else:
                    queries.append(q)
                    meta.append({"obligation": label})
        elif len(pushes) == 1 and tags.get(0) == "PStrLoc" and tags.get(1) == "PStrLoc":
            arms.add(("PStrLoc", "PStrLoc"))
            t = pushes[0][2][1]
            ok = t[0] == "agg" and len(t[2]) == 2
            enc = Encoder()
            conj = []
            for side in (0, 1):
                c = t[2][side] if ok else None
                pay = payload_of(p, side)
                if not (c and c[0] == "app" and c[1].endswith("offset_by") and pay):
                    ok = False
                    break
                # first operand: field `side` of the Continue(..) result of compare_pstr_segments
                src = c[2][0]
                if src[0] == "ref":
                    src = p.env.get(src[1]) or src
                root, projs = util.field_path(src)
                fld_ok = root is not None and root[0] == "app" and root[1].endswith("compare_pstr_segments") \
                    and projs and projs[-1] == ".%d" % side
                if fld_ok:
                    conj.append("(= %s %s)" % (enc.bv(root[2][1 + side]), enc.bv(pay)))
                ok = ok and fld_ok
                conj.append("(= %s %s)" % (enc.bv(c[2][1]), enc.bv(pay)))
            label = "PStrLoc x PStrLoc: continue with (v1.offset_by(l1), v2.offset_by(l2))"
            if ok:
                queries.append(enc.decls() + "\n(assert (not (and true %s)))" % " ".join(conj))
                meta.append({"obligation": label})
            else:
                structural.append({"obligation": label, "ok": False, "why": "shape"})
        elif len(pushes) > 2:
            structural.append({"obligation": "arm with %d pushes" % len(pushes), "ok": None, "why": "shape"})

    # the argument loop of the Str x Str arm
    loop_ok = None
    try:
        inner = [h for h in heads if h != outer]
        outer_env = {}
        for p in paths:
            tg = tags_of(p, tagname)
            if tg.get(0) == "Str" and tg.get(1) == "Str" and p.trace and any(
                    e[0] == "call" and re.search(r"::rev$", e[1]) for e in p.events):
                outer_env = p.env
        for h in inner:
            lp = core.Executor(body, stop_blocks=tuple(heads), max_depth=200, max_paths=200).run(h)
            for p in lp:
                pushes = [e for e in p.events if e[0] == "call" and e[1].endswith("::push") and "HeapCellValue" in e[1]]
                if len(pushes) != 1:
                    continue
                t = subst(pushes[0][2][1], outer_env)
                c0, c1 = classify(t[2][0]), classify(t[2][1])
                if not (c0 and c1 and c0[0] == "idx" and c1[0] == "idx"):
                    structural.append({"obligation": "Str x Str argument loop", "ok": None, "why": "shape"})
                    continue
                nx = []
                find_apps(c0[1], r"Iterator>::next$", nx)
                enc = Encoder()
                # both indices are base_k + i for the same i (the iterator item)
                i0, i1 = enc.bv(c0[1]), enc.bv(c1[1])
                if not nx:
                    structural.append({"obligation": "Str x Str argument loop", "ok": None, "why": "no iterator item"})
                    continue
                item = None
                # the item is the projection (next() as Some).0 appearing in the index
                def find_item(t, depth=0):
                    if t is None or depth > 30:
                        return None
                    if t[0] == "proj" and t[1][0] == "proj" and t[1][1][0] == "app" and \
                            t[1][1][1].endswith("Iterator>::next"):
                        return t
                    if t[0] in ("proj", "disc"):
                        return find_item(t[1], depth + 1)
                    if t[0] in ("app", "op", "agg"):
                        for a in t[2]:
                            r = find_item(a, depth + 1)
                            if r:
                                return r
                    return None
                item = find_item(c0[1])
                bases = []
                for c in (c0, c1):
                    g = []
                    find_apps(c[1], r"get_value$", g)
                    bases.append(g[0] if g else None)
                if item is None or None in bases or contains_side(bases[0]) != {0} or contains_side(bases[1]) != {1}:
                    structural.append({"obligation": "Str x Str argument loop: (s1+i, s2+i)", "ok": False,
                                       "why": "bases/sides"})
                    continue
                it = enc.bv(item)
                queries.append(enc.decls() + "\n(assert (not (and (= %s (bvadd %s %s)) (= %s (bvadd %s %s)))))" % (
                    i0, enc.bv(bases[0]), it, i1, enc.bv(bases[1]), it))
                meta.append({"obligation": "Str x Str argument loop pushes (heap[s1+i], heap[s2+i]) with one i"})
                loop_ok = True
                # the iterator: Rev<Range> of 1 .. arity+1 (reverse, so argument 1 is popped first)
                is_rev = "Rev<" in nx[0][1] and "Range" in nx[0][1]
                structural.append({"obligation": "Str x Str arguments pushed in reverse (Rev<Range>), popped left to right",
                                   "ok": bool(is_rev), "why": nx[0][1]})
        # the range 1 .. a1 + 1 is built on the outer path that enters the loop
        for p in paths:
            tags = tags_of(p, tagname)
            if tags.get(0) == "Str" and tags.get(1) == "Str":
                revs = [e for e in p.events if e[0] == "call" and re.search(r"Iterator>::rev$|::rev$", e[1])]
                for e in revs:
                    r = e[2][0]
                    if r[0] == "agg" and "Range" in r[1]:
                        enc = Encoder()
                        ar = []
                        find_apps(r[2][1], r"get_name_and_arity$", ar)
                        good = r[2][0] == ("c", 1) and ar and contains_side(ar[0]) == {0}
                        if good:
                            ar_t = ("proj", ar[0], ".1")
                            queries.append(enc.decls() if False else "")
                            q_end = enc.bv(r[2][1])
                            q_ar = enc.bv(ar_t)
                            queries[-1] = enc.decls() + "\n(assert (not (= %s (bvadd %s #x%016x))))" % (q_end, q_ar, 1)
                            meta.append({"obligation": "Str x Str argument range is 1 .. arity+1"})
                        else:
                            structural.append({"obligation": "Str x Str argument range is 1 .. arity+1", "ok": False,
                                               "why": util.term_str(r)[:120]})
    except core.Unsupported as e:
        structural.append({"obligation": "Str x Str argument loop", "ok": None, "why": str(e)})

    seen, uniq = set(), []
    for st in structural:
        k = (st["obligation"], st["ok"], st.get("why"))
        if k not in seen:
            seen.add(k)
            uniq.append(st)
    structural = uniq
    try:
        structural += fold_obligations(mir)
    except core.Unsupported as e:
        structural.append({"obligation": "pair stream folding", "ok": None, "why": str(e)})
    expected_arms = {("Lis", "PStrLoc"), ("Lis", "Lis"), ("Lis", "Str"), ("PStrLoc", "PStrLoc"),
                     ("PStrLoc", "Lis"), ("PStrLoc", "Str"), ("Str", "PStrLoc")}
    missing = expected_arms - arms
    if missing:
        structural.append({"obligation": "arms found", "ok": None, "why": "missing %s" % sorted(missing)})
    if not queries:
        return {"exit": EXIT_INCONCLUSIVE, "mirsmt_error": "no obligations extracted"}
    br = smt.check_batch(queries, thorough=thorough)
    res = {"evaluations": len(queries) + len(structural), "distinct_nontrivial": 0, "samples": [],
           "mirsmt_regions": ["ParallelHeapIter::next (loop body, %d paths)" % len(paths)],
           "mirsmt_seconds": br["z3_s"]}
    if br["results"] is None or (thorough and br["agree"] is False):
        res["exit"] = EXIT_INCONCLUSIVE
        return res
    viol, unknown = [], []
    for m, r in zip(meta, br["results"]):
        if r["answer"] == "unsat":
            res["distinct_nontrivial"] += 1
        elif r["answer"] == "sat":
            viol.append({**m, "answer": "sat"})
        else:
            unknown.append(m)
        res["samples"].append({"query": m["obligation"], "answer": r["answer"]})
    for s in structural:
        if s["ok"] is True:
            res["distinct_nontrivial"] += 1
        elif s["ok"] is False:
            viol.append(s)
        else:
            unknown.append(s)
        res["samples"].append({"query": s["obligation"], "answer": {True: "holds", False: "fails", None: "not understood"}[s["ok"]],
                               "note": s.get("why", "")})
    log("  mirsmt %s: %d paths through ParallelHeapIter::next; %d obligations (%d solver queries), "
        "%d hold, %d violated, %d not understood (z3 %.2fs)" % (
            prop, len(paths), len(queries) + len(structural), len(queries), res["distinct_nontrivial"],
            len(viol), len(unknown), br["z3_s"]))
    res["exit"] = EXIT_OK
    if viol:
        res["mirsmt_violations"] = viol
        from .. import prolog
        rp = prolog.replay_term_order(viol, prop)
        if rp["reproduced"]:
            log("VIOLATION property=%s replay=%s" % (prop, rp["path"]))
            res["exit"] = EXIT_VIOLATION
        else:
            log("  mirsmt %s: the compare/3 replay set answers as specified (%s) -> inconclusive" % (prop, rp.get("why")))
            res["exit"] = EXIT_INCONCLUSIVE
    elif unknown:
        res["mirsmt_not_understood"] = unknown
        res["exit"] = EXIT_INCONCLUSIVE
    return res

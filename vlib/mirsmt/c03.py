"""C03: the compiled evaluator and the run-time evaluator are wired to the same kernels.

Four finite maps are extracted from the MIR of the current tree by symbolic execution:
  I : functor/arity -> Instruction variant            (get_unary_instr / get_binary_instr)
  H : Instruction variant -> handler fn, operand fields (dispatch_loop arm)
  Kc: handler fn -> (kernel fn, which operand reaches which parameter)   (*_instr bodies)
  Kr: functor/arity -> (kernel fn, operand -> parameter)                 (arith_eval_by_metacall)
z3 decides  exists f. Kc(H(I(f))) != Kr(f)  (and a domain mismatch) over the enumerated functors."""
import re

from .. import smt, static_atoms
from ..common import EXIT_INCONCLUSIVE, EXIT_OK, EXIT_VIOLATION, log
from . import core, util

SKIP_CALL = re.compile(
    r"get_number$|get_rational$|is_empty$|throw_exception$|backtrack$|::from$|Box::<.*>::new$|"
    r"Fn<.*>>::call$|::unwrap$|::pop$|::push$|Try>::branch$|drop|FromResidual|::into$|"
    r"arena_allocate$|::deref$|::deref_mut$|::clone$|functor_stub$|index_mut$|::index$|"
    r"rational_from_number$")


def strings():
    try:
        _p, strs, _e = static_atoms.load_table()
        return strs
    except Exception:  # noqa
        return None


def operand_role(path, t, roles):
    """roles: {app id -> 'a1'|'a2'}; follow refs and projections"""
    seen = 0
    while t is not None and seen < 12:
        seen += 1
        if t[0] == "ref":
            t = path.env.get(t[1])
            continue
        if t[0] in ("proj", "disc"):
            t = t[1]
            continue
        if t[0] == "agg" and len(t[2]) == 1:
            t = t[2][0]
            continue
        break
    if t is None:
        return "?"
    if t[0] == "app":
        if t[3] in roles:
            return roles[t[3]]
        # value computed from an operand by an intermediate call (e.g. unwrap(pop()))
        rs = {operand_role(path, a, roles) for a in t[2]}
        rs &= {"a1", "a2"}
        if len(rs) == 1:
            return rs.pop()
        return "call:" + t[1].split("::")[-1]
    if t[0] == "atom":
        return "atom"
    if t[0] in ("c", "cf", "k"):
        return "const"
    if t[0] == "s":
        return "in:" + t[1]
    return t[0]


def kernel_signature(path, roles):
    """[(kernel fn short name, (role of each argument))] for calls fed by the operands"""
    sig = []
    for e in path.events:
        if e[0] != "call" or SKIP_CALL.search(e[1]):
            continue
        rs = tuple(operand_role(path, a, roles) for a in e[2])
        if any(r in ("a1", "a2") for r in rs):
            name = re.sub(r"<impl [^>]*>::", "", e[1])
            name = name.split("::")[-1] if not name.startswith("<") else name
            rs = tuple(r if r in ("a1", "a2") else "-" for r in rs)
            sig.append((name, rs))
            # the result of a kernel is itself derived from the operands it consumed only for
            # chained kernels (ceiling = neg . floor . neg): keep the chain, do not re-role
    return tuple(sig)


def main_path(paths):
    """the path on which every fallible step succeeded: no backtrack / throw, ends normally"""
    good = []
    for p in paths:
        if core.calls(p, r"backtrack$|throw_exception$|evaluable_error$|type_error$|"
                         r"instantiation_error$"):
            continue
        if p.end in ("diverge", "unreachable", "unwind") or str(p.end).startswith("LOOP"):
            continue
        good.append(p)
    return good


# ---------------------------------------------------------------- I
def instr_table(mir, fn, nops):
    body = mir.body(mir.find(r"::%s$" % fn)[0])
    paths = core.Executor(body).run("bb0")
    t = {}
    for p in paths:
        idx = [v for (tm, op, v) in p.conds if op == "==" and util.term_str(tm) == "_2.0"]
        r = p.env.get("_0")
        if not idx or not r or r[0] != "agg" or not r[1].endswith("::Ok"):
            continue
        inner = r[2][0]
        m = re.search(r"Instruction::(\w+)$", inner[1])
        if not m:
            raise core.Unsupported("unexpected result of %s: %s" % (fn, util.term_str(r)))
        want = tuple(("s", "_%d" % (3 + i)) for i in range(nops + 1))
        t[idx[0]] = (m.group(1), inner[2] == want)
    return t


# ---------------------------------------------------------------- H
def handler_of(body, head, variant, nops):
    entry = util.arm_entry(body, variant)
    paths = core.Executor(body, stop_blocks=[head], max_depth=60).run(entry)
    for p in paths:
        cs = core.calls(p, r"_instr$")
        if cs:
            e = cs[0]
            fields = []
            for a in e[2][1:1 + nops]:
                m = re.search(r"as %s\)\.(\d+)$" % re.escape(variant), a[1]) if a[0] == "ref" else None
                fields.append(int(m.group(1)) if m else None)
            return e[1], tuple(fields)
    return None, None


# ---------------------------------------------------------------- Kc
def handler_signature(mir, hname, nops):
    body = mir.body(util.resolve_fn(mir, hname))
    paths = core.Executor(body, max_depth=300).run("bb0")
    good = main_path(paths)
    sigs = set()
    for p in good:
        roles = {}
        for e in p.events:
            if e[0] == "call" and re.search(r"get_number$|get_rational$", e[1]):
                a = e[2][1]
                if a == ("s", "_2"):
                    roles[e[3][3]] = "a1"
                elif a == ("s", "_3") and nops == 2:
                    roles[e[3][3]] = "a2"
        if len(roles) != nops:
            continue
        rat = tuple(sorted(set(re.sub(r".*::", "", e[1]) for e in p.events if e[0] == "call" and
                               re.search(r"get_number$|get_rational$", e[1]))))
        sigs.add((kernel_signature(p, roles), rat))
    return sigs


# ---------------------------------------------------------------- Kr
def runtime_tables(mir):
    body = mir.body(mir.find(r"::arith_eval_by_metacall$")[0])
    head = util.loop_head(body)
    pred = {}
    for bb, ls in body.blocks.items():
        for m in re.finditer(r"bb\d+", ls[-1]):
            pred.setdefault(m.group(0), set()).add(bb)
    tables = {}
    for bb, ls in body.blocks.items():
        t = ls[-1]
        m = re.match(r"^switchInt\(copy \((_\d+)\.0: u64\)\)", t)
        if not m:
            continue
        cur, npop = bb, 0
        seen = {bb}
        while True:
            ps = list(pred.get(cur, ()))
            if len(ps) != 1 or body.blocks[ps[0]][-1].startswith("switchInt") or ps[0] in seen:
                break
            cur = ps[0]
            seen.add(cur)
            if "::pop(" in body.blocks[cur][-1]:
                npop += 1
        paths = core.Executor(body, stop_blocks=[head], max_depth=300, max_paths=600).run(cur)
        tab = {}
        for p in paths:
            idx = [v for (tm, op, v) in p.conds if op == "==" and
                   util.term_str(tm) == m.group(1) + ".0"]
            if not idx:
                continue
            if p not in main_path([p]) or p.end != head:
                continue
            pops = core.calls(p, r"Vec::<forms::Number>::pop$")
            roles = {}
            # stack discipline of a post-order walk: the first pop is the LAST operand
            if npop == 2 and len(pops) >= 2:
                roles[pops[0][3][3]] = "a2"
                roles[pops[1][3][3]] = "a1"
            elif npop == 1 and len(pops) >= 1:
                roles[pops[0][3][3]] = "a1"
            consts = tuple(util.term_str(e[2][1]) for e in p.events
                           if e[0] == "call" and e[1].endswith("::push") and len(e[2]) > 1) \
                if npop == 0 else ()
            rat = tuple(sorted(set(re.sub(r".*::", "", e[1]) for e in p.events if e[0] == "call"
                                   and re.search(r"rational_from_number$", e[1]))))
            tab.setdefault(idx[0], set()).add((kernel_signature(p, roles), rat, consts))
        tables[npop] = tab
    return tables


def literal_constants(mir):
    """push_literal (compile time): atom -> float constant pushed for it"""
    names = [n for n in mir.index if re.search(r"(^|::)push_literal$", n)]
    if len(names) != 1:
        raise core.Unsupported("push_literal: %s" % names)
    body = mir.body(names[0])
    paths = core.Executor(body, max_depth=300, max_paths=2000).run("bb0")
    out = {}
    for p in paths:
        if p.end != "return":
            continue
        idx = None
        for tm, op, v in p.conds:
            ra = util.root_app(tm)
            # `name == &atom!("e")` is a PartialEq call on two atoms, not a switchInt
            if ra and ra[1].endswith("PartialEq>::eq") and ((op == "not_in" and 0 in v) or
                                                             (op == "==" and v == 1)):
                for a in ra[2]:
                    val = p.env.get(a[1]) if a[0] == "ref" else a
                    if val and val[0] == "ref":
                        val = p.env.get(val[1]) or val
                    if val and val[0] == "atom":
                        idx = val[1]
                    elif val and val[0] == "k" and "promoted" in val[1]:
                        idx = ("promoted", val[1])
        pushes = [e for e in p.events if e[0] == "call" and e[1].endswith("::push")]
        consts = []
        for e in pushes:
            t = e[2][1]
            txt = util.term_str(t)
            m = re.search(r"(std::f64::[\w:]+|[-\d.eE+]+f64)", str(t))
            if m:
                consts.append(m.group(1))
        if idx is not None and consts:
            out[idx] = consts[-1]
    # resolve promoted atom constants to their index
    res = {}
    for k, v in out.items():
        if isinstance(k, tuple) and k[0] == "promoted":
            m = re.search(r"promoted\[(\d+)\]", k[1])
            ai = None
            for i, l in enumerate(mir.lines):
                if l.startswith("const ") and "push_literal::promoted[%s]" % m.group(1) in l:
                    for l2 in mir.lines[i:i + 12]:
                        m2 = re.search(r"atom_table::Atom \{ index: const (\d+)_u64 \}", l2)
                        if m2:
                            ai = int(m2.group(1))
                    break
            if ai is None:
                raise core.Unsupported("cannot resolve %s" % k[1])
            res[ai] = v
        else:
            res[k] = v
    return res


def runtime_constants(mir):
    body = mir.body(mir.find(r"::arith_eval_by_metacall$")[0])
    out = {}
    for bb, ls in body.blocks.items():
        m = re.match(r"^switchInt\(copy \((_\d+)\.0: u64\)\) -> \[(.*)\];$", ls[-1])
        if not m:
            continue
        targets = re.findall(r"(\d+): (bb\d+)", m.group(2))
        if len(targets) > 6:
            continue
        for val, tb in targets:
            cur = tb
            for _ in range(6):
                txt = " ".join(body.blocks[cur])
                c = re.search(r"OrderedFloat::<f64>\(const ([\w:]+|[-\d.eE+]+f64)\)", txt)
                if c:
                    out[int(val)] = c.group(1)
                    break
                nx = re.search(r"(?:goto -> |return: )(bb\d+)", body.blocks[cur][-1])
                if not nx:
                    break
                cur = nx.group(1)
    return out


def norm_sig(sigs):
    """canonical form of a set of (kernel chain, rational flag[, consts]) alternatives:
    the kernel chain only, with rational conversion recorded as a flag"""
    out = set()
    for s in sigs:
        chain = tuple((k, r) for k, r in s[0])
        ratflag = any("rational" in x for x in s[1])
        out.add((chain, ratflag))
    return frozenset(out)


def run(thorough=False):
    try:
        mir, secs, cached = util.get()
        strs = strings()
        dl = mir.body(mir.find(r"::dispatch_loop$")[0])
        head = util.loop_head(dl)
        rows = []
        comp = {}
        for fn, nops in (("get_binary_instr", 2), ("get_unary_instr", 1)):
            it = instr_table(mir, fn, nops)
            for idx, (variant, args_ok) in it.items():
                hname, fields = handler_of(dl, head, variant, nops)
                if hname is None:
                    raise core.Unsupported("no handler call in the arm of " + variant)
                sigs = handler_signature(mir, hname, nops)
                if not sigs:
                    raise core.Unsupported("no success path in " + hname)
                comp[(nops, idx)] = {"variant": variant, "args_ok": args_ok, "handler": hname,
                                     "fields_ok": fields == tuple(range(nops)), "sig": norm_sig(sigs)}
        rt = runtime_tables(mir)
    except Exception as e:  # noqa
        log("  mirsmt C03: cannot extract the tables (%s)" % e)
        return {"exit": EXIT_INCONCLUSIVE, "mirsmt_error": str(e)}
    run_ = {}
    for nops in (1, 2):
        for idx, sigs in rt.get(nops, {}).items():
            run_[(nops, idx)] = norm_sig(sigs)
    # ---- finite-map comparison, decided by z3 over the enumerated functors
    keys = sorted(set(comp) | set(run_))
    sigids = {}

    def sid(s):
        return sigids.setdefault(s, len(sigids) + 1)
    lines = ["(declare-const f Int)", "(assert (and (>= f 0) (< f %d)))" % len(keys)]
    kc = "0"
    kr = "0"
    for i, k in enumerate(keys):
        c = comp.get(k)
        cid = sid(c["sig"]) if c and c["args_ok"] and c["fields_ok"] else (-1 if c else 0)
        rid = sid(run_[k]) if k in run_ else 0
        kc = "(ite (= f %d) %d %s)" % (i, cid, kc)
        kr = "(ite (= f %d) %d %s)" % (i, rid, kr)
    lines.append("(define-fun kc () Int %s)" % kc)
    lines.append("(define-fun kr () Int %s)" % kr)
    lines.append("(assert (not (= kc kr)))")
    try:
        lc0, rc0 = literal_constants(mir), runtime_constants(mir)
    except core.Unsupported as e:
        log("  mirsmt C03: constants not extracted (%s)" % e)
        return {"exit": EXIT_INCONCLUSIVE, "mirsmt_error": str(e)}
    ck = sorted(set(lc0) | set(rc0))
    cid = {}
    ca = cb = "0"
    for i, k in enumerate(ck):
        ca = "(ite (= g %d) %d %s)" % (i, cid.setdefault(lc0.get(k), len(cid) + 1), ca)
        cb = "(ite (= g %d) %d %s)" % (i, cid.setdefault(rc0.get(k), len(cid) + 1), cb)
    qc = "(declare-const g Int)\n(assert (and (>= g 0) (< g %d)))\n(assert (not (= %s %s)))" % (
        max(1, len(ck)), ca, cb)
    br = smt.check_batch(["\n".join(lines), qc], thorough=thorough, getvals=[["f"], ["g"]])
    diffs = []
    for k in keys:
        c, r = comp.get(k), run_.get(k)
        if c is None or r is None or c["sig"] != r or not c["args_ok"] or not c["fields_ok"]:
            diffs.append({"functor": core.atom_text(k[1], strs), "arity": k[0],
                          "compiled": sorted(map(str, c["sig"])) if c else None,
                          "runtime": sorted(map(str, r)) if r else None,
                          "variant": c and c["variant"], "handler": c and c["handler"],
                          "args_ok": c and c["args_ok"], "fields_ok": c and c["fields_ok"]})
    try:
        lc, rc = literal_constants(mir), runtime_constants(mir)
    except core.Unsupported as e:
        log("  mirsmt C03: constants not extracted (%s)" % e)
        return {"exit": EXIT_INCONCLUSIVE, "mirsmt_error": str(e)}
    for k in sorted(set(lc) | set(rc)):
        if lc.get(k) != rc.get(k):
            diffs.append({"functor": core.atom_text(k, strs), "arity": 0,
                          "compiled": lc.get(k), "runtime": rc.get(k)})
    nul = sorted(core.atom_text(i, strs) for i in rt.get(0, {}))
    ans = br["results"][0]["answer"] if br["results"] else None
    ansc = br["results"][1]["answer"] if br["results"] else None
    if ans is not None and ansc == "sat":
        ans = "sat"
    log("  mirsmt C03: %d binary + %d unary functors compiled, %d + %d at run time, nullary %s; "
        "query %s, %d differences (z3 %.2fs)" % (
            sum(1 for k in comp if k[0] == 2), sum(1 for k in comp if k[0] == 1),
            len(rt.get(2, {})), len(rt.get(1, {})), nul, ans, len(diffs), br["z3_s"]))
    samples = []
    for k in keys[:6]:
        c = comp.get(k)
        samples.append({"functor": "%s/%d" % (core.atom_text(k[1], strs), k[0]),
                        "instruction": c and c["variant"], "handler": c and c["handler"].split("::")[-1],
                        "compiled_kernels": c and sorted(map(str, c["sig"])),
                        "runtime_kernels": sorted(map(str, run_.get(k, [])))})
    res = {"evaluations": 1 + len(keys), "distinct_nontrivial": len(keys) - len(diffs),
           "samples": samples, "mirsmt_functors": len(keys), "mirsmt_seconds": br["z3_s"],
           "mirsmt_nullary": nul,
           "mirsmt_regions": ["get_binary_instr", "get_unary_instr", "dispatch_loop arithmetic arms",
                              "%d *_instr handlers" % len({c["handler"] for c in comp.values()}),
                              "arith_eval_by_metacall (3 functor switches)"],
           "mirsmt_assumptions": ["stack discipline of the post-order walk: first pop = last operand",
                                  "operand fetch (get_number) is shared by both evaluators",
                                  "error-context differences (culprit atoms, stub functors) are "
                                  "normalised away"]}
    if ans is None or (thorough and br["agree"] is False):
        res["exit"] = EXIT_INCONCLUSIVE
        return res
    if (ans == "sat") != bool(diffs):
        log("  mirsmt C03: solver and table diff disagree -> inconclusive")
        res["exit"] = EXIT_INCONCLUSIVE
        return res
    if diffs:
        res["mirsmt_differences"] = diffs
        from .. import prolog
        rp = prolog.replay_evaluators(diffs)
        if rp["reproduced"]:
            log("VIOLATION property=C03 replay=%s" % rp["path"])
            res["exit"] = EXIT_VIOLATION
        else:
            for d in diffs[:4]:
                log("    differs: %s" % d)
            log("  mirsmt C03: wiring difference did not reproduce on the binary (%s) -> "
                "inconclusive" % rp.get("why"))
            res["exit"] = EXIT_INCONCLUSIVE
    return res

"""C23 (arg/3): MachineState::try_arg, every path (75 in the current tree).

For arg(N, Term, Arg) with N an integer >= 0 that fits a machine word (both integer
representations: the value is `get_num` of the fixnum or the `usize` conversion of the bignum cell):
  Str cell o, arity a :  Arg is unified  <=>  1 <= N <= a, and then with the cell at o + N,
                         otherwise the goal fails                       (z3, 64-bit words)
  Lis cell l          :  unified <=> N = 1 or N = 2, with the cell at l + N - 1, else fails
  unbound N or Term   :  instantiation_error;  N not an integer: type_error(integer);
  N < 0: domain_error(not_less_than_zero);  Term atomic: type_error(compound)
The path conditions are encoded as they stand (the comparisons on N are bit-vector formulas), the
unified location is compared with base + N as a bit-vector term. The partial-string arm (first
character / rest) is outside (C20's string stepping)."""
import re

from .. import smt
from ..common import EXIT_INCONCLUSIVE, EXIT_OK, EXIT_VIOLATION, log
from . import core, util
from .c11 import enum_values
from .smtgen import Encoder


def functor_obligations(mir, tagname):
    """functor/3 (MachineState::try_functor). Inspect mode: an atomic cell T gives (T, 0), a Str cell
    (name, arity) of its own functor cell, a Lis / PStrLoc cell ('.', 2). Construct mode (T unbound):
    unbound name or arity -> instantiation_error; a non-integer arity -> type_error; arity > MAX_ARITY
    -> representation_error; arity < 0 -> domain_error; an atomic non-atom name with arity 0 binds T to
    it; an atom name fabricates name/arity bound to T."""
    out = []
    ns = [n for n in mir.index if n.endswith("::try_functor")]
    if len(ns) != 1:
        raise core.Unsupported("try_functor: %s" % ns)
    body = mir.body(ns[0])
    heads = util.back_edge_targets(body)
    paths = core.Executor(body, stop_blocks=tuple(heads), max_depth=600, max_paths=8000).run("bb0")
    insp, cons = {}, {}
    for p in paths:
        tags = [tagname.get(c[2], str(c[2])) if c[1] == "==" else "other" for c in p.conds
                if c[0][0] == "disc" and c[0][1][0] == "app" and c[0][1][1].endswith("get_tag")]
        if not tags:
            continue
        calls = [e for e in p.events if e[0] == "call" and re.search(
            r"try_functor_\w+$|_error$|MachineState>?::bind$", e[1])]
        t1 = tags[0]
        if t1 in ("Var", "StackVar", "AttrVar"):
            cons.setdefault(t1, []).append((tags[1:], calls, p))
        else:
            insp.setdefault(t1, []).append((calls, p))
    a1 = None
    for t1 in ("Cons", "Fixnum", "F64Offset", "Atom"):
        rs = insp.get(t1, [])
        ok = bool(rs)
        for calls, p in rs:
            c = [x for x in calls if x[1].endswith("try_functor_unify_components")]
            ok = ok and len(c) == 1 and c[0][2][2] == ("c", 0) and c[0][2][1][0] == "app" and \
                c[0][2][1][1].endswith("::store")
        out.append({"obligation": "functor/3: an atomic term (%s cell) has name itself and arity 0" % t1, "ok": ok})
    rs = insp.get("Str", [])
    ok = bool(rs)
    for calls, p in rs:
        c = [x for x in calls if x[1].endswith("try_functor_compound_case")]
        if len(c) != 1:
            ok = False
            continue
        nm, ar = c[0][2][1], c[0][2][2]
        ok = ok and nm[0] == "proj" and nm[2] == ".0" and ar[0] == "proj" and ar[2] == ".1" and nm[1] == ar[1] and \
            nm[1][0] == "app" and nm[1][1].endswith("get_name_and_arity")
    out.append({"obligation": "functor/3: a structure has the name and arity of its own functor cell", "ok": ok})
    for t1 in ("Lis", "PStrLoc"):
        rs = insp.get(t1, [])
        ok = bool(rs)
        for calls, p in rs:
            c = [x for x in calls if x[1].endswith("try_functor_compound_case")]
            ok = ok and len(c) == 1 and c[0][2][2] == ("c", 2) and c[0][2][1][0] == "agg" and \
                core.atom_text(c[0][2][1][2][0][1]) == "."
        out.append({"obligation": "functor/3: a list (%s cell) has name '.' and arity 2" % t1, "ok": ok})
    for t1 in ("Var", "StackVar", "AttrVar"):
        rs = cons.get(t1, [])
        errs = set()
        fab_ok, bind_ok = True, True
        n_fab = n_bind = 0
        for tags, calls, p in rs:
            for x in calls:
                nm = x[1].split("::")[-1]
                if nm.endswith("_error") and nm != "throw_resource_error":
                    errs.add(nm)
                if nm == "try_functor_fabricate_struct":
                    n_fab += 1
                    name_ok = x[2][1][0] == "proj" and x[2][1][2] == ".0"
                    fab_ok = fab_ok and tags[:1] in (["Atom"], ["Str"]) and name_ok
                if nm == "bind":
                    n_bind += 1
                    bind_ok = bind_ok and tags[:1] in (["Cons"], ["Fixnum"], ["F64Offset"])
        need = {"instantiation_error", "type_error", "representation_error", "domain_error"}
        out.append({"obligation": "functor/3 with unbound T (%s): the four error classes of 8.5.1.3 are raised" % t1,
                    "ok": need <= errs, "why": str(sorted(errs))})
        out.append({"obligation": "functor/3 with unbound T (%s): an atom name builds name/arity, an atomic "
                    "non-atom name (arity 0) is T itself" % t1, "ok": n_fab > 0 and n_bind > 0 and fab_ok and bind_ok,
                    "why": "fabricate %d, bind %d" % (n_fab, n_bind)})
    # the helper: unify(name with arg 2), then unify_fixnum(arity, arg 3)
    ns = [n for n in mir.index if n.endswith("::try_functor_unify_components")]
    if len(ns) == 1:
        b2 = mir.body(ns[0])
        ok = False
        for p in core.Executor(b2, max_depth=200, max_paths=200).run("bb0"):
            uf = [e for e in p.events if e[0] == "call" and e[1].endswith("unify_fixnum")]
            if uf:
                ar = uf[0][2][1]
                ok = ok or (ar[0] == "app" and ar[1].endswith("build_with_unchecked") and
                            ar[2][0] in (("op", "cast:IntToInt", (("s", "_3"),)), ("s", "_3")))
        out.append({"obligation": "functor/3: the arity unified with the third argument is the arity passed in",
                    "ok": ok})
    return out


def run(thorough=False):
    queries, meta, structural = [], [], []
    try:
        mir, secs, cached = util.get()
        tagname = {v: k for k, v in enum_values("src/types.rs", "HeapCellValueTag").items()}
        fail_idx = util.struct_field_index("src/machine/machine_state.rs", "MachineState", "fail")
        ns = [n for n in mir.index if n.endswith("::try_arg")]
        if len(ns) != 1:
            raise core.Unsupported("try_arg: %s" % ns)
        body = mir.body(ns[0])
        heads = util.back_edge_targets(body)
        paths = core.Executor(body, stop_blocks=tuple(heads), max_depth=500, max_paths=5000).run("bb0")
        arms = {}
        errs = {}
        for p in paths:
            tagc = [c for c in p.conds if c[0][0] == "disc" and c[0][1][0] == "app" and c[0][1][1].endswith("get_tag")]
            calls = [e[1].split("::")[-1] for e in p.events if e[0] == "call"]
            err = [c for c in calls if c in ("instantiation_error", "type_error", "domain_error")]
            fails = [e[2] for e in p.events if e[0] == "store" and e[1].endswith(".%d" % fail_idx)]
            unis = [e for e in p.events if e[0] == "call" and (e[1].endswith("OccursCheckImpl>::unify") or e[1].endswith("::unify"))]
            # the tag tests: first on N's cell, second on the term's cell
            tags = []
            for c in tagc:
                tags.append(tagname.get(c[2], str(c[2])) if c[1] == "==" else "other")
            key = tuple(tags)
            if err:
                errs.setdefault(key, set()).add(err[0])
            if len(tags) == 2 and tags[1] in ("Str", "Lis") and p.end == "return" and not err:
                arms.setdefault(tags[1], []).append((p, fails, unis))
        # error mapping
        def has(key, e):
            return errs.get(key) == {e}
        for t in ("Var", "StackVar", "AttrVar"):
            structural.append({"obligation": "arg/3: unbound N (%s) raises instantiation_error" % t,
                               "ok": has((t,), "instantiation_error")})
            structural.append({"obligation": "arg/3: unbound Term (%s) raises instantiation_error" % t,
                               "ok": has(("other", t), "instantiation_error")})
        structural.append({"obligation": "arg/3: an atomic Term raises type_error(compound)",
                           "ok": has(("other", "other"), "type_error")})
        top = errs.get(("other",), set())
        structural.append({"obligation": "arg/3: N not an integer raises type_error, N < 0 raises domain_error",
                           "ok": top == {"type_error", "domain_error"}, "why": str(sorted(top))})
        # Str / Lis arms, per representation of N (the value term differs)
        for tag, recs in arms.items():
            groups = {}
            for (p, fails, unis) in recs:
                nvs = set()
                for c in p.conds:
                    t = c[0]
                    if t[0] == "op" and t[1] in ("Le", "Eq", "Lt", "Ge"):
                        for a in t[2]:
                            if a[0] != "c" and not (a[0] == "app" and a[1].endswith("get_arity")):
                                nvs.add(a)
                if len(nvs) != 1:
                    structural.append({"obligation": "arg/3 %s arm: N's value is one term per path" % tag, "ok": None,
                                       "why": str([util.term_str(x) for x in nvs])[:120]})
                    continue
                groups.setdefault(nvs.pop(), []).append((p, fails, unis))
            for nv, rs in groups.items():
                enc = Encoder()
                n = enc.bv(nv)
                ok_f, fail_f, idx_q = [], [], []
                arity = None
                for (p, fails, unis) in rs:
                    cs = []
                    for c in p.conds:
                        t = c[0]
                        if t[0] == "op" and t[1] in ("Le", "Eq", "Lt", "Ge") and nv in t[2]:
                            cs.append(enc.cond(c))
                            for a in t[2]:
                                if a[0] == "app" and a[1].endswith("get_arity"):
                                    arity = a
                    f = "(and true %s)" % " ".join(cs)
                    if unis and not fails:
                        ok_f.append(f)
                        # the location unified with: heap_loc_as_cell!(base + n [- 1])
                        loc = None
                        reg = None
                        # unify_fn!: the pair (location cell, register 3) is pushed on the pdl first
                        for e in p.events:
                            if e[0] == "call" and e[1].endswith("::push") and len(e[2]) > 1 and \
                                    e[2][1][0] == "agg" and len(e[2][1][2]) == 2:
                                a, r3 = e[2][1][2]
                                if a[0] == "app" and a[1].endswith("build_with") and a[2][0][0] == "agg" and \
                                        a[2][0][1].endswith("HeapCellValueTag::Var"):
                                    loc = a[2][1]
                                    m3 = re.search(r"\[(_\d+)\]$", r3[2]) if r3[0] == "proj" else None
                                    reg = p.env.get(m3.group(1)) if m3 else None
                        if loc is not None and reg != ("c", 3):
                            structural.append({"obligation": "arg/3 %s arm: the argument is unified with register 3" % tag,
                                               "ok": False, "why": str(reg)})
                        if loc is None:
                            structural.append({"obligation": "arg/3 %s arm: unifies with a heap location" % tag, "ok": None})
                            continue
                        gv = []

                        def find_gv(x, d=0):
                            if x is None or d > 30:
                                return
                            if x[0] == "app" and x[1].endswith("get_value"):
                                gv.append(x)
                            if x[0] in ("proj", "disc"):
                                find_gv(x[1], d + 1)
                            elif x[0] in ("app", "op", "agg"):
                                for a2 in x[2]:
                                    find_gv(a2, d + 1)
                        find_gv(loc)
                        if not gv:
                            structural.append({"obligation": "arg/3 %s arm: location derives from the term cell" % tag, "ok": False})
                            continue
                        base = enc.bv(gv[0])
                        want = "(bvadd %s %s)" % (base, n) if tag == "Str" else "(bvsub (bvadd %s %s) #x0000000000000001)" % (base, n)
                        idx_q.append("(and %s (not (= %s %s)))" % (f, enc.bv(loc), want))
                    elif fails == [("c", 1)] and not unis:
                        fail_f.append(f)
                    else:
                        structural.append({"obligation": "arg/3 %s arm: a path either unifies or fails" % tag, "ok": False})
                if tag == "Str":
                    if arity is None:
                        structural.append({"obligation": "arg/3 Str arm compares N with the arity", "ok": False})
                        continue
                    spec = "(and (bvule #x0000000000000001 %s) (bvule %s %s))" % (n, n, enc.bv(arity))
                else:
                    spec = "(or (= %s #x0000000000000001) (= %s #x0000000000000002))" % (n, n)
                rep = "fixnum" if "get_num" in util.term_str(nv) else "bignum cell"
                queries.append(enc.decls() + "\n(assert (not (and (= (or false %s) %s) (= (or false %s) (not %s)))))" % (
                    " ".join(ok_f), spec, " ".join(fail_f), spec))
                meta.append({"obligation": "arg/3 on a %s cell, N in a %s: unified <=> %s, else fails" % (
                    tag, rep, "1 <= N <= arity" if tag == "Str" else "N in {1,2}")})
                if idx_q:
                    queries.append(enc.decls() + "\n(assert (or false %s))" % " ".join(idx_q))
                    meta.append({"obligation": "arg/3 on a %s cell, N in a %s: the argument is the cell at %s" % (
                        tag, rep, "o + N" if tag == "Str" else "l + N - 1")})
        if not queries:
            raise core.Unsupported("no Str / Lis arm recognised")
        structural += functor_obligations(mir, tagname)
    except Exception as e:  # noqa
        log("  mirsmt C23: cannot analyse (%s)" % e)
        return {"exit": EXIT_INCONCLUSIVE, "mirsmt_error": str(e)}
    br = smt.check_batch(queries, thorough=thorough)
    res = {"evaluations": len(queries) + len(structural), "distinct_nontrivial": 0, "samples": [],
           "mirsmt_regions": ["MachineState::try_arg (%d paths)" % len(paths), "MachineState::try_functor",
                              "MachineState::try_functor_unify_components"], "mirsmt_seconds": br["z3_s"]}
    if br["results"] is None or (thorough and br["agree"] is False):
        res["exit"] = EXIT_INCONCLUSIVE
        return res
    viol, unknown = [], []
    for m, r in zip(meta, br["results"]):
        if r["answer"] == "unsat":
            res["distinct_nontrivial"] += 1
        elif r["answer"] == "sat":
            viol.append({**m, "answer": "sat"})
        else:
            unknown.append(m)
        res["samples"].append({"query": m["obligation"], "answer": r["answer"]})
    for st in structural:
        if st["ok"] is True:
            res["distinct_nontrivial"] += 1
        elif st["ok"] is False:
            viol.append(st)
        else:
            unknown.append(st)
        res["samples"].append({"query": st["obligation"], "answer": {True: "holds", False: "fails", None: "not understood"}[st["ok"]],
                               "note": st.get("why", "")})
    log("  mirsmt C23: try_arg: %d obligations (%d solver queries), %d hold, %d violated, %d not understood (z3 %.2fs)" % (
        len(queries) + len(structural), len(queries), res["distinct_nontrivial"], len(viol), len(unknown), br["z3_s"]))
    res["exit"] = EXIT_OK
    if viol:
        res["mirsmt_violations"] = viol
        from .. import prolog
        rp = prolog.replay_arg(viol)
        if rp["reproduced"]:
            log("VIOLATION property=C23 replay=%s" % rp["path"])
            res["exit"] = EXIT_VIOLATION
        else:
            for v in viol[:4]:
                log("    fails: %s" % v)
            log("  mirsmt C23: the arg/3 replay answers as specified (%s) -> inconclusive" % rp.get("why"))
            res["exit"] = EXIT_INCONCLUSIVE
    elif unknown:
        res["mirsmt_not_understood"] = unknown
        for u in unknown[:4]:
            log("    not understood: %s" % u)
        res["exit"] = EXIT_INCONCLUSIVE
    return res

"""C23 (arg/3): MachineState::try_arg, every path (75 in the current tree).

For arg(N, Term, Arg) with N an integer >= 0 that fits a machine word (both integer
representations: the value is `get_num` of the fixnum or the `usize` conversion of the bignum cell):
  Str cell o, arity a :  Arg is unified  <=>  1 <= N <= a, and then with the cell at o + N,
                         otherwise the goal fails                       (z3, 64-bit words)
  Lis cell l          :  unified <=> N = 1 or N = 2, with the cell at l + N - 1, else fails
  unbound N or Term   :  instantiation_error;  N not an integer: type_error(integer);
  N < 0: domain_error(not_less_than_zero);  Term atomic: type_error(compound)
The path conditions are encoded as they stand (the comparisons on N are bit-vector formulas), the
unified location is compared with base + N as a bit-vector term. The string arm (first
character / rest) is pstr_arm_obligations below; the character iterator is C20's."""
import re

from .. import smt
from ..common import EXIT_INCONCLUSIVE, EXIT_OK, EXIT_VIOLATION, log
from . import core, util
from .c11 import enum_values
from .smtgen import Encoder


def functor_obligations(mir, tagname):
    """functor/3 (MachineState::try_functor). Inspect mode: an atomic cell T gives (T, 0), a Str cell
    (name, arity) of its own functor cell, a Lis / PStrLoc cell ('.', 2). Construct mode (T unbound):
    unbound name or arity -> instantiation_error; a non-integer arity -> type_error; arity > MAX_ARITY
    -> representation_error; arity < 0 -> domain_error; an atomic non-atom name with arity 0 binds T to
    it; an atom name fabricates name/arity bound to T."""
    out = []
    ns = [n for n in mir.index if n.endswith("::try_functor")]
    if len(ns) != 1:
        raise core.Unsupported("try_functor: %s" % ns)
    body = mir.body(ns[0])
    heads = util.back_edge_targets(body)
    paths = core.Executor(body, stop_blocks=tuple(heads), max_depth=600, max_paths=8000).run("bb0")
    insp, cons = {}, {}
    for p in paths:
        tags = [tagname.get(c[2], str(c[2])) if c[1] == "==" else "other" for c in p.conds
                if c[0][0] == "disc" and c[0][1][0] == "app" and c[0][1][1].endswith("get_tag")]
        if not tags:
            continue
        calls = [e for e in p.events if e[0] == "call" and re.search(
            r"try_functor_\w+$|_error$|MachineState>?::bind$", e[1])]
        t1 = tags[0]
        if t1 in ("Var", "StackVar", "AttrVar"):
            cons.setdefault(t1, []).append((tags[1:], calls, p))
        else:
            insp.setdefault(t1, []).append((calls, p))
    a1 = None
    for t1 in ("Cons", "Fixnum", "F64Offset", "Atom"):
        rs = insp.get(t1, [])
        ok = bool(rs)
        for calls, p in rs:
            c = [x for x in calls if x[1].endswith("try_functor_unify_components")]
            ok = ok and len(c) == 1 and c[0][2][2] == ("c", 0) and c[0][2][1][0] == "app" and \
                c[0][2][1][1].endswith("::store")
        out.append({"obligation": "functor/3: an atomic term (%s cell) has name itself and arity 0" % t1, "ok": ok})
    rs = insp.get("Str", [])
    ok = bool(rs)
    for calls, p in rs:
        c = [x for x in calls if x[1].endswith("try_functor_compound_case")]
        if len(c) != 1:
            ok = False
            continue
        nm, ar = c[0][2][1], c[0][2][2]
        ok = ok and nm[0] == "proj" and nm[2] == ".0" and ar[0] == "proj" and ar[2] == ".1" and nm[1] == ar[1] and \
            nm[1][0] == "app" and nm[1][1].endswith("get_name_and_arity")
    out.append({"obligation": "functor/3: a structure has the name and arity of its own functor cell", "ok": ok})
    for t1 in ("Lis", "PStrLoc"):
        rs = insp.get(t1, [])
        ok = bool(rs)
        for calls, p in rs:
            c = [x for x in calls if x[1].endswith("try_functor_compound_case")]
            ok = ok and len(c) == 1 and c[0][2][2] == ("c", 2) and c[0][2][1][0] == "agg" and \
                core.atom_text(c[0][2][1][2][0][1]) == "."
        out.append({"obligation": "functor/3: a list (%s cell) has name '.' and arity 2" % t1, "ok": ok})
    for t1 in ("Var", "StackVar", "AttrVar"):
        rs = cons.get(t1, [])
        errs = set()
        fab_ok, bind_ok = True, True
        n_fab = n_bind = 0
        for tags, calls, p in rs:
            for x in calls:
                nm = x[1].split("::")[-1]
                if nm.endswith("_error") and nm != "throw_resource_error":
                    errs.add(nm)
                if nm == "try_functor_fabricate_struct":
                    n_fab += 1
                    name_ok = x[2][1][0] == "proj" and x[2][1][2] == ".0"
                    fab_ok = fab_ok and tags[:1] in (["Atom"], ["Str"]) and name_ok
                if nm == "bind":
                    n_bind += 1
                    bind_ok = bind_ok and tags[:1] in (["Cons"], ["Fixnum"], ["F64Offset"])
        # 8.5.1.3 e) / c): which type_error, decided over the arity conditions of the paths
        for ntag in ("Cons", "Fixnum", "F64Offset"):
            groups = {}
            for tags, calls, p in rs:
                if tags[:1] != [ntag]:
                    continue
                te = [x for x in calls if x[1].split("::")[-1] == "type_error"]
                arc = [c for c in p.conds if c[0][0] == "op" and c[0][1] in ("Eq", "Ne") and c[0][2][1] == ("c", 0)]
                ats = set(c[0][2][0] for c in arc)
                if not te or len(ats) != 1:
                    continue
                vt = te[0][2][1]
                kind = vt[1].split("::")[-1] if vt[0] == "agg" else "?"
                groups.setdefault(ats.pop(), []).append((kind, arc))
            if not groups:
                out.append({"obligation": "functor/3 with unbound T (%s): a %s name with arity > 0 raises "
                            "type_error(atom, Name)" % (t1, ntag), "ok": False, "why": "no such path"})
            for at, recs in groups.items():
                enc = Encoder()
                a = enc.bv(at)
                atom_f = ["(and true %s)" % " ".join(enc.cond(c) for c in arc) for k, arc in recs if k == "Atom"]
                atomic_f = ["(and true %s)" % " ".join(enc.cond(c) for c in arc) for k, arc in recs if k != "Atom"]
                out.append({"obligation": "functor/3 with unbound T (%s): a %s name with arity > 0 (arity from %s) raises "
                            "type_error(atom, Name) and never type_error(atomic, Name)" % (
                                t1, ntag, util.term_str(at).split("#")[0]),
                            "smt": enc.decls() + "\n(assert (or (and (not (= %s #x0000000000000000)) (not (or false %s))) (or false %s)))" % (
                                a, " ".join(atom_f), " ".join(atomic_f))})
        need = {"instantiation_error", "type_error", "representation_error", "domain_error"}
        out.append({"obligation": "functor/3 with unbound T (%s): the four error classes of 8.5.1.3 are raised" % t1,
                    "ok": need <= errs, "why": str(sorted(errs))})
        out.append({"obligation": "functor/3 with unbound T (%s): an atom name builds name/arity, an atomic "
                    "non-atom name (arity 0) is T itself" % t1, "ok": n_fab > 0 and n_bind > 0 and fab_ok and bind_ok,
                    "why": "fabricate %d, bind %d" % (n_fab, n_bind)})
    # the helper: unify(name with arg 2), then unify_fixnum(arity, arg 3)
    ns = [n for n in mir.index if n.endswith("::try_functor_unify_components")]
    if len(ns) == 1:
        b2 = mir.body(ns[0])
        ok = False
        for p in core.Executor(b2, max_depth=200, max_paths=200).run("bb0"):
            uf = [e for e in p.events if e[0] == "call" and e[1].endswith("unify_fixnum")]
            if uf:
                ar = uf[0][2][1]
                ok = ok or (ar[0] == "app" and ar[1].endswith("build_with_unchecked") and
                            ar[2][0] in (("op", "cast:IntToInt", (("s", "_3"),)), ("s", "_3")))
        out.append({"obligation": "functor/3: the arity unified with the third argument is the arity passed in",
                    "ok": ok})
    return out


def _promoted_value(mir, fn_suffix, idx):
    """the value a `const <fn>::promoted[idx]` body assigns: ('int', n) | ('atom', index) | ('name', path)"""
    for i, l in enumerate(mir.lines):
        if l.startswith("const ") and ("%s::promoted[%d]:" % (fn_suffix, idx)) in l:
            for l2 in mir.lines[i:i + 12]:
                m = re.match(r"\s*_1 = atom_table::Atom \{ index: const (\d+)_u64 \};", l2)
                if m:
                    return ("atom", int(m.group(1)))
                m = re.match(r"\s*_1 = const (-?\d+)_[iu]\w+;", l2)
                if m:
                    return ("int", int(m.group(1)))
                m = re.match(r"\s*_1 = const ([\w:]+);", l2)
                if m:
                    return ("name", m.group(1))
    return None


def _const_usize(src_rel, name):
    import os
    from ..common import REPO
    txt = open(os.path.join(REPO, src_rel)).read()
    m = re.search(r"pub const %s: usize = (\d+);" % name, txt)
    return int(m.group(1)) if m else None


def _tag_of(t):
    """HeapCellValue::build_with(tag, v) -> (tag name, v)"""
    if t[0] == "app" and t[1].endswith("HeapCellValue::build_with") and t[2][0][0] == "agg":
        return t[2][0][1].split("::")[-1], t[2][1]
    return None, None


def fabricate_obligations(mir, tagname):
    """functor/3 in construction mode: MachineState::try_functor_fabricate_struct(name, arity, r) and its two
    writer closures, every path; plus the guards on every path of try_functor that reaches it.
      - h = heap.cell_len() is read before heap.reserve(arity + 1); a failed reservation returns the error
        before anything is written or bound;
      - '.'/2 (and only that: name == '.' /\ arity == 2) writes the two unbound cells Var(h), Var(h+1) and binds
        r to Lis(h); everything else writes the functor cell name/arity at h, then for i in 0..arity the
        cell Var(h + i + 1), which is the (i+1)-th cell after the functor cell, i.e. a self-reference (an
        unbound variable, distinct per argument); r is bound to Str(h), for arity 0 to Var(h) (the atom);
      - the number of cells pushed never exceeds the reservation: 1 + arity = reserve's argument, 2 <= it
        when arity = 2;
      - in try_functor every path to the call has passed !(N > MAX_ARITY) and !(N < 0) on the arity's Number,
        and MAX_ARITY fits the functor cell's 8-bit arity field (the `as u8` is lossless).
    Returns (structural, queries, meta)."""
    st, queries, meta = [], [], []
    ns = [n for n in mir.index if n.endswith("::try_functor_fabricate_struct")]
    if len(ns) != 1:
        raise core.Unsupported("try_functor_fabricate_struct: %s" % ns)
    fn = ns[0]
    body = mir.body(fn)
    if util.back_edge_targets(body):
        raise core.Unsupported("try_functor_fabricate_struct has a loop of its own")
    paths = core.Executor(body, max_depth=300, max_paths=400).run("bb0")
    arity = ("s", "_3")
    cl_of = {}
    lis_f, other_f = [], []
    enc = Encoder()
    ok_order = ok_err = ok_bind = ok_res = ok_caps = True
    res_arg = None
    n_ok = 0
    for p in paths:
        cs = [e for e in p.events if e[0] == "call"]
        names = [e[1].split("::")[-1] for e in cs]
        if "cell_len" not in names or "reserve" not in names or names.index("cell_len") > names.index("reserve"):
            ok_order = False
            continue
        h = cs[names.index("cell_len")][3]
        rv = cs[names.index("reserve")]
        res_arg = rv[2][1]
        ww = [e for e in cs if e[1].endswith("::write_with")]
        bd = [e for e in cs if e[1].endswith("::bind")]
        failed = any(c[0][0] == "disc" and c[0][1][0] == "app" and c[0][1][1].endswith("::branch") and
                     c[1] == "==" and c[2] == 1 for c in p.conds)
        if failed:
            ok_err = ok_err and not ww and not bd and not any(n == "build_with" for n in names)
            continue
        n_ok += 1
        if len(ww) != 1 or len(bd) != 1 or ww[0][2][1][0] != "agg":
            ok_bind = False
            continue
        clos = ww[0][2][1]
        caps = [p.env.get(c[1], c) if c[0] == "ref" and c[1] in p.env else c for c in clos[2]]
        m = re.search(r"closure@([^}]*)", clos[1])
        tag, val = _tag_of(bd[0][2][3])
        ok_bind = ok_bind and bd[0][2][2] == ("s", "_4")
        ok_res = ok_res and val == ("op", "cast:IntToInt", (h,))
        # the condition of this path on (name == '.', arity)
        f = enc.conj([c for c in p.conds if not (c[0][0] == "disc")], boolish=lambda t: t[0] == "app" and t[1].endswith("::eq"))
        eqs = [c[0] for c in p.conds if c[0][0] == "app" and c[0][1].endswith("PartialEq>::eq")]
        if len(clos[2]) == 1:
            ok_caps = ok_caps and caps == [h]
            ok_res = ok_res and tag == "Lis"
            lis_f.append(f)
            cl_of["lis"] = m.group(1) if m else None
        else:
            ok_caps = ok_caps and len(caps) == 3 and clos[2][0] == ("ref", "_2.0") and clos[2][1] == ("ref", "_3") and caps[2] == h
            zero = any(c[0] == ("op", "Eq", (arity, ("c", 0))) and ((c[1] == "not_in" and 0 in c[2]) or (c[1] == "==" and c[2] == 1))
                       for c in p.conds)
            ok_res = ok_res and tag == ("Var" if zero else "Str")
            other_f.append(f)
            cl_of["str"] = m.group(1) if m else None
    st.append({"obligation": "functor/3 construction: the heap top h is read before reserve(arity + 1)", "ok": ok_order and n_ok > 0})
    st.append({"obligation": "functor/3 construction: a failed reservation returns before anything is written or bound", "ok": ok_err})
    st.append({"obligation": "functor/3 construction: exactly one writer closure runs and T (the Ref passed in) is bound once", "ok": ok_bind})
    st.append({"obligation": "functor/3 construction: T is bound to Lis(h) for '.'/2, Str(h) for arity > 0, Var(h) for arity 0", "ok": ok_res})
    st.append({"obligation": "functor/3 construction: the writer closures capture this call's h, name and arity", "ok": ok_caps})
    # which name is compared: promoted[0] must be '.'
    pv = None
    for p in paths:
        for c in p.conds:
            if c[0][0] == "app" and c[0][1].endswith("PartialEq>::eq") and c[0][2][1][0] == "k":
                mm = re.search(r"promoted\[(\d+)\]", c[0][2][1][1])
                pv = _promoted_value(mir, "try_functor_fabricate_struct", int(mm.group(1))) if mm else None
                eq_term = c[0]
    st.append({"obligation": "functor/3 construction: the list case compares the name with the atom '.'",
               "ok": bool(pv and pv[0] == "atom" and core.atom_text(pv[1]) == "."), "why": str(pv)})
    if pv and lis_f and other_f:
        iseq = enc.boolean(eq_term)
        a = enc.bv(arity)
        spec = "(and %s (= %s #x0000000000000002))" % (iseq, a)
        queries.append(enc.decls() + "\n(assert (not (and (= (or false %s) %s) (= (or false %s) (not %s)))))" % (
            " ".join(lis_f), spec, " ".join(other_f), spec))
        meta.append({"obligation": "functor/3 construction: a list cell pair is built <=> name = '.' and arity = 2, a functor block otherwise"})
    # closures
    cls = [n for n in mir.index if n.startswith(fn + "::{closure#")]
    pushes_lis = pushes_hdr = None
    for cn in cls:
        b2 = mir.body(cn)
        heads = util.back_edge_targets(b2)
        if not heads:
            ps = core.Executor(b2, max_depth=200, max_paths=50).run("bb0")
            if len(ps) != 1:
                st.append({"obligation": "functor/3 construction: the '.'/2 writer is straight-line", "ok": None})
                continue
            pc = [e for e in ps[0].events if e[0] == "call" and e[1].endswith("::push_cell")]
            hh = ("proj", ("proj", ("s", "_1"), ".0"), "*")
            cells = [_tag_of(e[2][1]) for e in pc]
            e2 = Encoder()
            okc = len(cells) == 2 and all(t == "Var" for t, _ in cells)
            st.append({"obligation": "functor/3 construction ('.'/2): two cells are written, both unbound-variable cells", "ok": okc})
            if okc:
                pushes_lis = 2
                queries.append("%s\n(assert (or (not (= %s %s)) (not (= %s (bvadd %s #x0000000000000001)))))" % (
                    "PLACEHOLDER", e2.bv(cells[0][1]), e2.bv(hh), e2.bv(cells[1][1]), e2.bv(hh)))
                queries[-1] = queries[-1].replace("PLACEHOLDER", e2.decls())
                meta.append({"obligation": "functor/3 construction ('.'/2): the k-th cell written (k = 0, 1) is Var(h + k), a self-reference"})
        else:
            if len(heads) != 1:
                st.append({"obligation": "functor/3 construction: the functor-block writer has one loop", "ok": None})
                continue
            ex = lambda entry: core.Executor(b2, stop_blocks=tuple(heads), max_depth=200, max_paths=50).run(entry)
            pre = ex("bb0")
            loop = ex(heads[0])
            nm, ar, hh = [("proj", ("proj", ("s", "_1"), ".%d" % k), "*") for k in range(3)]
            okh = len(pre) == 1
            if okh:
                pc = [e for e in pre[0].events if e[0] == "call" and e[1].endswith("::push_cell")]
                okh = len(pc) == 1
                if okh:
                    c0 = pc[0][2][1]
                    okh = (c0[0] == "app" and c0[1].endswith("HeapCellValue::from_bytes") and c0[2][0][0] == "app" and
                           c0[2][0][1].endswith("AtomCell::into_bytes") and c0[2][0][2][0][0] == "app" and
                           c0[2][0][2][0][1].endswith("AtomCell::build_with") and
                           c0[2][0][2][0][2] == (nm, ("op", "cast:IntToInt", (ar,))))
                rg = [e for e in pre[0].events if e[0] == "call" and e[1].endswith("IntoIterator>::into_iter")]
                okr = len(rg) == 1 and rg[0][2][0] == ("agg", "struct:std::ops::Range::<usize>", (("c", 0), ar))
            st.append({"obligation": "functor/3 construction: the first cell written is the functor cell name/arity", "ok": bool(okh)})
            st.append({"obligation": "functor/3 construction: the argument cells are written for i in 0..arity", "ok": bool(okh and okr)})
            done = [q for q in loop if q.end == "return"]
            again = [q for q in loop if q.end == heads[0]]
            okl = len(done) == 1 and len(again) == 1 and len(loop) == 2 and \
                not [e for e in done[0].events if e[0] == "call" and e[1].endswith("::push_cell")]
            if okl:
                q = again[0]
                nx = [e for e in q.events if e[0] == "call" and e[1].endswith("Iterator>::next")]
                pc = [e for e in q.events if e[0] == "call" and e[1].endswith("::push_cell")]
                okl = len(nx) == 1 and len(pc) == 1 and _tag_of(pc[0][2][1])[0] == "Var"
                if okl:
                    i = ("proj", ("proj", nx[0][3], " as Some"), ".0")
                    e2 = Encoder()
                    v = e2.bv(_tag_of(pc[0][2][1])[1])
                    # the functor cell is cell h; iteration i writes the (1 + i)-th cell after it
                    queries.append("%s\n(assert (not (= %s (bvadd %s (bvadd #x0000000000000001 %s)))))" % (
                        "PLACEHOLDER", v, e2.bv(hh), e2.bv(i)))
                    queries[-1] = queries[-1].replace("PLACEHOLDER", e2.decls())
                    meta.append({"obligation": "functor/3 construction: iteration i writes Var(h + 1 + i), the address the cell "
                                 "itself gets (a fresh unbound variable per argument)"})
                    pushes_hdr = 1
            st.append({"obligation": "functor/3 construction: each iteration writes exactly one unbound-variable cell, "
                       "the exit writes nothing", "ok": bool(okl)})
    if res_arg is not None:
        e3 = Encoder()
        a = e3.bv(arity)
        r = e3.bv(res_arg)
        if pushes_hdr:
            queries.append(e3.decls() + "\n(assert (not (= %s (bvadd #x0000000000000001 %s))))" % (r, a))
            meta.append({"obligation": "functor/3 construction: cells written (1 + arity) = cells reserved"})
        if pushes_lis:
            queries.append(e3.decls() + "\n(assert (and (= %s #x0000000000000002) (bvult %s #x%016x)))" % (a, r, pushes_lis))
            meta.append({"obligation": "functor/3 construction ('.'/2): the two cells written fit the reservation"})
    # guards in try_functor
    tf = [n for n in mir.index if n.endswith("::try_functor")][0]
    b3 = mir.body(tf)
    ps = core.Executor(b3, stop_blocks=tuple(util.back_edge_targets(b3)), max_depth=600, max_paths=8000).run("bb0")
    max_arity = _const_usize("src/parser/ast.rs", "MAX_ARITY")
    okg, nreach, why = True, 0, ""
    for p in ps:
        fc = [e for e in p.events if e[0] == "call" and e[1].endswith("try_functor_fabricate_struct")]
        if not fc:
            continue
        nreach += 1
        seen = {}
        for e in p.events:
            if e[0] == "call" and re.search(r"Number as PartialOrd<usize>>::(gt|lt)$", e[1]) and e[2][1][0] == "k":
                mm = re.search(r"promoted\[(\d+)\]", e[2][1][1])
                pvv = _promoted_value(mir, "::try_functor", int(mm.group(1))) if mm else None
                held = any(c[0] == e[3] and c[1] == "==" and c[2] == 0 for c in p.conds)
                if held and e[3][3] < fc[0][3][3]:
                    seen[e[1][-2:]] = (e[2][0], pvv)
        g, l = seen.get("gt"), seen.get("lt")
        good = bool(g and l and g[0] == l[0] and l[1] == ("int", 0) and
                    (g[1] == ("name", "parser::ast::MAX_ARITY") or (g[1] and g[1][0] == "int" and g[1][1] <= 255)))
        if not good:
            okg = False
            why = "gt %s lt %s" % (g, l)
    st.append({"obligation": "functor/3 construction: every path to the fabrication has passed !(N > MAX_ARITY) and !(N < 0) "
               "on the same Number (%d paths)" % nreach, "ok": okg and nreach > 0, "why": why})
    st.append({"obligation": "functor/3 construction: MAX_ARITY fits the functor cell's 8-bit arity field",
               "ok": max_arity is not None and max_arity <= 255, "why": str(max_arity)})
    return st, queries, meta


def pstr_arm_obligations(paths, tagname, fail_idx):
    """arg/3 on a string (PStrLoc cell at byte offset l), per representation of N:
       unified <=> N in {1, 2}, otherwise the goal fails;  N = 1: the first character c = char_iter(l).next()
       is unified with register 3;  N = 2: if the string goes on after c, the string at l + len_utf8(c),
       otherwise the cell at pstr_tail_idx(l + len_utf8(c)) (what follows the string) - with register 3."""
    st, queries, meta = [], [], []
    groups = {}
    for p in paths:
        tagc = [c for c in p.conds if c[0][0] == "disc" and c[0][1][0] == "app" and c[0][1][1].endswith("get_tag")]
        tags = [tagname.get(c[2], str(c[2])) if c[1] == "==" else "other" for c in tagc]
        if len(tags) != 2 or tags[1] != "PStrLoc" or p.end != "return":
            continue
        if any(e[0] == "call" and e[1].split("::")[-1] in ("instantiation_error", "type_error", "domain_error") for e in p.events):
            continue
        nvs = set()
        for c in p.conds:
            t = c[0]
            if t[0] == "op" and t[1] == "Eq" and t[2][1] in (("c", 1), ("c", 2)):
                nvs.add(t[2][0])
        if len(nvs) != 1:
            st.append({"obligation": "arg/3 string arm: N's value is one term per path", "ok": None})
            continue
        groups.setdefault(nvs.pop(), []).append(p)
    if not groups:
        st.append({"obligation": "arg/3 string arm: recognised", "ok": None})
    for nv, ps in groups.items():
        rep = "fixnum" if "get_num" in util.term_str(nv) else "bignum cell"
        enc = Encoder()
        n = enc.bv(nv)
        ok_f, fail_f = [], []
        shape = True
        why = ""
        kinds = set()
        for p in ps:
            cs = [enc.cond(c) for c in p.conds if c[0][0] == "op" and c[0][1] == "Eq" and c[0][2][0] == nv]
            f = "(and true %s)" % " ".join(cs)
            calls = [e for e in p.events if e[0] == "call"]
            fails = [e[2] for e in p.events if e[0] == "store" and e[1].endswith(".%d" % fail_idx)]
            uni = [e for e in calls if e[1].endswith("::unify") or e[1].endswith("::unify_char")]
            if not uni:
                if fails != [("c", 1)]:
                    shape, why = False, "a path neither unifies nor fails"
                fail_f.append(f)
                continue
            if fails:
                shape, why = False, "a unifying path sets fail"
            ok_f.append(f)
            ci = [e for e in calls if e[1].endswith("Heap::char_iter")]
            nx = [e for e in calls if e[1].endswith("Iterator>::next")]
            gv = [e for e in calls if e[1].endswith("::get_value")]
            if len(ci) != 1 or not nx or not gv or ci[0][2][1] != ("op", "cast:IntToInt", (gv[-1][3],)):
                shape, why = False, "the iterator does not start at the string's own offset"
                continue
            loc = ci[0][2][1]
            c1 = ("proj", ("proj", nx[0][3], " as Some"), ".0")
            is1 = any(c[0] == ("op", "Eq", (nv, ("c", 1))) and c[1] != "==" for c in p.conds) or \
                any(c[0] == ("op", "Eq", (nv, ("c", 1))) and c[1] == "==" and c[2] == 1 for c in p.conds)

            def reg_of(t):
                m3 = re.search(r"\[(_\d+)\]$", t[2]) if t[0] == "proj" else None
                return p.env.get(m3.group(1)) if m3 else None
            kinds.add("first" if is1 else "rest")
            if is1:
                uc = [e for e in calls if e[1].endswith("::unify_char")]
                if len(uc) != 1 or uc[0][2][1] != c1 or reg_of(uc[0][2][2]) != ("c", 3) or len(nx) != 1:
                    shape, why = False, "N = 1: not unify_char(first character, register 3)"
                continue
            pu = [e for e in calls if e[1].endswith("::push") and len(e[2]) > 1 and e[2][1][0] == "agg" and len(e[2][1][2]) == 2]
            if len(pu) != 1 or len(nx) != 2 or reg_of(pu[0][2][1][2][0]) != ("c", 3):
                shape, why = False, "N = 2: not one pair (register 3, rest) pushed after looking one character ahead"
                continue
            rest = pu[0][2][1][2][1]
            lu = [e for e in calls if e[1].endswith("::len_utf8")]
            if len(lu) != 1 or lu[0][2][0] != c1:
                shape, why = False, "N = 2: the step is not the first character's len_utf8"
                continue
            after = ("proj", ("op", "AddWithOverflow", (loc, lu[0][3])), ".0")
            more = any(c[0][0] == "app" and c[0][1].endswith("::is_some") and
                       ((c[1] == "==" and c[2] == 1) or (c[1] == "not_in" and 0 in c[2])) for c in p.conds)
            kinds.add("more" if more else "ends")
            if more:
                tg, v = _tag_of(rest)
                if tg != "PStrLoc" or v != ("op", "cast:IntToInt", (after,)):
                    shape, why = False, "N = 2, string goes on: rest is not PStrLoc(l + len_utf8(c))"
            else:
                # heap[pstr_tail_idx(l + len_utf8(c))]
                okr = rest[0] == "proj" and rest[2] == "*" and rest[1][0] == "app" and rest[1][1].endswith("Index<usize>>::index") and \
                    rest[1][2][1][0] == "app" and rest[1][2][1][1].endswith("pstr_tail_idx") and rest[1][2][1][2][0] == after
                if not okr:
                    shape, why = False, "N = 2, string ends: rest is not heap[pstr_tail_idx(l + len_utf8(c))]"
        st.append({"obligation": "arg/3 on a string, N in a %s: N = 1 gives the first character, N = 2 the string one "
                   "character on (or the cell after the string's end)" % rep,
                   "ok": (shape if kinds == {"first", "rest", "more", "ends"} or not shape else None),
                   "why": why or "path kinds seen: %s" % sorted(kinds)})
        spec = "(or (= %s #x0000000000000001) (= %s #x0000000000000002))" % (n, n)
        queries.append(enc.decls() + "\n(assert (not (and (= (or false %s) %s) (= (or false %s) (not %s)))))" % (
            " ".join(ok_f), spec, " ".join(fail_f), spec))
        meta.append({"obligation": "arg/3 on a string, N in a %s: unified <=> N in {1,2}, else fails" % rep})
    return st, queries, meta


def run(thorough=False):
    queries, meta, structural = [], [], []
    try:
        mir, secs, cached = util.get()
        tagname = {v: k for k, v in enum_values("src/types.rs", "HeapCellValueTag").items()}
        fail_idx = util.struct_field_index("src/machine/machine_state.rs", "MachineState", "fail")
        ns = [n for n in mir.index if n.endswith("::try_arg")]
        if len(ns) != 1:
            raise core.Unsupported("try_arg: %s" % ns)
        body = mir.body(ns[0])
        heads = util.back_edge_targets(body)
        paths = core.Executor(body, stop_blocks=tuple(heads), max_depth=500, max_paths=5000).run("bb0")
        arms = {}
        errs = {}
        for p in paths:
            tagc = [c for c in p.conds if c[0][0] == "disc" and c[0][1][0] == "app" and c[0][1][1].endswith("get_tag")]
            calls = [e[1].split("::")[-1] for e in p.events if e[0] == "call"]
            err = [c for c in calls if c in ("instantiation_error", "type_error", "domain_error")]
            fails = [e[2] for e in p.events if e[0] == "store" and e[1].endswith(".%d" % fail_idx)]
            unis = [e for e in p.events if e[0] == "call" and (e[1].endswith("OccursCheckImpl>::unify") or e[1].endswith("::unify"))]
            # the tag tests: first on N's cell, second on the term's cell
            tags = []
            for c in tagc:
                tags.append(tagname.get(c[2], str(c[2])) if c[1] == "==" else "other")
            key = tuple(tags)
            if err:
                errs.setdefault(key, set()).add(err[0])
            if len(tags) == 2 and tags[1] in ("Str", "Lis") and p.end == "return" and not err:
                arms.setdefault(tags[1], []).append((p, fails, unis))
        # error mapping
        def has(key, e):
            return errs.get(key) == {e}
        for t in ("Var", "StackVar", "AttrVar"):
            structural.append({"obligation": "arg/3: unbound N (%s) raises instantiation_error" % t,
                               "ok": has((t,), "instantiation_error")})
            structural.append({"obligation": "arg/3: unbound Term (%s) raises instantiation_error" % t,
                               "ok": has(("other", t), "instantiation_error")})
        structural.append({"obligation": "arg/3: an atomic Term raises type_error(compound)",
                           "ok": has(("other", "other"), "type_error")})
        top = errs.get(("other",), set())
        structural.append({"obligation": "arg/3: N not an integer raises type_error, N < 0 raises domain_error",
                           "ok": top == {"type_error", "domain_error"}, "why": str(sorted(top))})
        # Str / Lis arms, per representation of N (the value term differs)
        for tag, recs in arms.items():
            groups = {}
            for (p, fails, unis) in recs:
                nvs = set()
                for c in p.conds:
                    t = c[0]
                    if t[0] == "op" and t[1] in ("Le", "Eq", "Lt", "Ge"):
                        for a in t[2]:
                            if a[0] != "c" and not (a[0] == "app" and a[1].endswith("get_arity")):
                                nvs.add(a)
                if len(nvs) != 1:
                    structural.append({"obligation": "arg/3 %s arm: N's value is one term per path" % tag, "ok": None,
                                       "why": str([util.term_str(x) for x in nvs])[:120]})
                    continue
                groups.setdefault(nvs.pop(), []).append((p, fails, unis))
            for nv, rs in groups.items():
                enc = Encoder()
                n = enc.bv(nv)
                ok_f, fail_f, idx_q = [], [], []
                arity = None
                for (p, fails, unis) in rs:
                    cs = []
                    for c in p.conds:
                        t = c[0]
                        if t[0] == "op" and t[1] in ("Le", "Eq", "Lt", "Ge") and nv in t[2]:
                            cs.append(enc.cond(c))
                            for a in t[2]:
                                if a[0] == "app" and a[1].endswith("get_arity"):
                                    arity = a
                    f = "(and true %s)" % " ".join(cs)
                    if unis and not fails:
                        ok_f.append(f)
                        # the location unified with: heap_loc_as_cell!(base + n [- 1])
                        loc = None
                        reg = None
                        # unify_fn!: the pair (location cell, register 3) is pushed on the pdl first
                        for e in p.events:
                            if e[0] == "call" and e[1].endswith("::push") and len(e[2]) > 1 and \
                                    e[2][1][0] == "agg" and len(e[2][1][2]) == 2:
                                a, r3 = e[2][1][2]
                                if a[0] == "app" and a[1].endswith("build_with") and a[2][0][0] == "agg" and \
                                        a[2][0][1].endswith("HeapCellValueTag::Var"):
                                    loc = a[2][1]
                                    m3 = re.search(r"\[(_\d+)\]$", r3[2]) if r3[0] == "proj" else None
                                    reg = p.env.get(m3.group(1)) if m3 else None
                        if loc is not None and reg != ("c", 3):
                            structural.append({"obligation": "arg/3 %s arm: the argument is unified with register 3" % tag,
                                               "ok": False, "why": str(reg)})
                        if loc is None:
                            structural.append({"obligation": "arg/3 %s arm: unifies with a heap location" % tag, "ok": None})
                            continue
                        gv = []

                        def find_gv(x, d=0):
                            if x is None or d > 30:
                                return
                            if x[0] == "app" and x[1].endswith("get_value"):
                                gv.append(x)
                            if x[0] in ("proj", "disc"):
                                find_gv(x[1], d + 1)
                            elif x[0] in ("app", "op", "agg"):
                                for a2 in x[2]:
                                    find_gv(a2, d + 1)
                        find_gv(loc)
                        if not gv:
                            structural.append({"obligation": "arg/3 %s arm: location derives from the term cell" % tag, "ok": False})
                            continue
                        base = enc.bv(gv[0])
                        want = "(bvadd %s %s)" % (base, n) if tag == "Str" else "(bvsub (bvadd %s %s) #x0000000000000001)" % (base, n)
                        idx_q.append("(and %s (not (= %s %s)))" % (f, enc.bv(loc), want))
                    elif fails == [("c", 1)] and not unis:
                        fail_f.append(f)
                    else:
                        structural.append({"obligation": "arg/3 %s arm: a path either unifies or fails" % tag, "ok": False})
                if tag == "Str":
                    if arity is None:
                        structural.append({"obligation": "arg/3 Str arm compares N with the arity", "ok": False})
                        continue
                    spec = "(and (bvule #x0000000000000001 %s) (bvule %s %s))" % (n, n, enc.bv(arity))
                else:
                    spec = "(or (= %s #x0000000000000001) (= %s #x0000000000000002))" % (n, n)
                rep = "fixnum" if "get_num" in util.term_str(nv) else "bignum cell"
                queries.append(enc.decls() + "\n(assert (not (and (= (or false %s) %s) (= (or false %s) (not %s)))))" % (
                    " ".join(ok_f), spec, " ".join(fail_f), spec))
                meta.append({"obligation": "arg/3 on a %s cell, N in a %s: unified <=> %s, else fails" % (
                    tag, rep, "1 <= N <= arity" if tag == "Str" else "N in {1,2}")})
                if idx_q:
                    queries.append(enc.decls() + "\n(assert (or false %s))" % " ".join(idx_q))
                    meta.append({"obligation": "arg/3 on a %s cell, N in a %s: the argument is the cell at %s" % (
                        tag, rep, "o + N" if tag == "Str" else "l + N - 1")})
        if not queries:
            raise core.Unsupported("no Str / Lis arm recognised")
        for ob in functor_obligations(mir, tagname):
            if "smt" in ob:
                queries.append(ob["smt"])
                meta.append({"obligation": ob["obligation"]})
            else:
                structural.append(ob)
        st3, q3, m3 = pstr_arm_obligations(paths, tagname, fail_idx)
        structural += st3
        queries += q3
        meta += m3
        st2, q2, m2 = fabricate_obligations(mir, tagname)
        structural += st2
        queries += q2
        meta += m2
    except Exception as e:  # noqa
        log("  mirsmt C23: cannot analyse (%s)" % e)
        return {"exit": EXIT_INCONCLUSIVE, "mirsmt_error": str(e)}
    br = smt.check_batch(queries, thorough=thorough)
    res = {"evaluations": len(queries) + len(structural), "distinct_nontrivial": 0, "samples": [],
           "mirsmt_regions": ["MachineState::try_arg (%d paths)" % len(paths), "MachineState::try_functor",
                              "MachineState::try_functor_unify_components",
                              "MachineState::try_functor_fabricate_struct and its two writer closures"], "mirsmt_seconds": br["z3_s"]}
    if br["results"] is None or (thorough and br["agree"] is False):
        res["exit"] = EXIT_INCONCLUSIVE
        return res
    viol, unknown = [], []
    for m, r in zip(meta, br["results"]):
        if r["answer"] == "unsat":
            res["distinct_nontrivial"] += 1
        elif r["answer"] == "sat":
            viol.append({**m, "answer": "sat"})
        else:
            unknown.append(m)
        res["samples"].append({"query": m["obligation"], "answer": r["answer"]})
    for st in structural:
        if st["ok"] is True:
            res["distinct_nontrivial"] += 1
        elif st["ok"] is False:
            viol.append(st)
        else:
            unknown.append(st)
        res["samples"].append({"query": st["obligation"], "answer": {True: "holds", False: "fails", None: "not understood"}[st["ok"]],
                               "note": st.get("why", "")})
    log("  mirsmt C23: try_arg: %d obligations (%d solver queries), %d hold, %d violated, %d not understood (z3 %.2fs)" % (
        len(queries) + len(structural), len(queries), res["distinct_nontrivial"], len(viol), len(unknown), br["z3_s"]))
    res["exit"] = EXIT_OK
    if viol:
        res["mirsmt_violations"] = viol
        from .. import prolog
        rp = prolog.replay_arg(viol)
        if rp["reproduced"]:
            log("VIOLATION property=C23 replay=%s" % rp["path"])
            res["exit"] = EXIT_VIOLATION
        else:
            for v in viol[:4]:
                log("    fails: %s" % v)
            log("  mirsmt C23: the arg/3 replay answers as specified (%s) -> inconclusive" % rp.get("why"))
            res["exit"] = EXIT_INCONCLUSIVE
    elif unknown:
        res["mirsmt_not_understood"] = unknown
        for u in unknown[:4]:
            log("    not understood: %s" % u)
        res["exit"] = EXIT_INCONCLUSIVE
    return res

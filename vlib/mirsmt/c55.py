"""C55 (M part): the hexadecimal escape of char_to_string.

Engine K replaces std::fmt::format (formatting machinery defeats CBMC), so the one escape that is
produced by format! - `\\xH..H\\` for white space and control characters without a symbolic escape -
is decided here: on the path that formats, the value handed to LowerHex is the character's full
code point: z3 decides `formatted == zext32(c)` for every scalar value c, where the formatted value
is the extracted cast chain with its target width (u32 keeps all 21 bits; a narrower cast is
modelled as truncation and makes the query satisfiable, e.g. U+2028)."""
import re

from .. import smt
from ..common import EXIT_INCONCLUSIVE, EXIT_OK, EXIT_VIOLATION, log
from . import core, util


def run(thorough=False):
    try:
        mir, secs, cached = util.get()
        names = [n for n in mir.index if n.split("::")[-1] == "char_to_string"]
        if len(names) != 1:
            raise core.Unsupported("char_to_string: %s" % names)
        body = mir.body(names[0])
        sites = []
        for bb, ls in body.blocks.items():
            for l in ls:
                m = re.search(r"Argument::<'_>::new_(\w+)::<(\w+)>\(", l)
                if m:
                    sites.append((bb, m.group(1), m.group(2)))
        casts = []
        for bb, ls in body.blocks.items():
            for l in ls:
                m = re.match(r"^\s*(_\d+) = copy (_\d+) as (\w+) \((\w+)\);", l)
                if m:
                    casts.append((bb, m.group(1), m.group(2), m.group(3), m.group(4)))
        if not sites:
            raise core.Unsupported("no fmt argument constructed in char_to_string")
    except Exception as e:  # noqa
        log("  mirsmt C55: cannot analyse (%s)" % e)
        return {"exit": EXIT_INCONCLUSIVE, "mirsmt_error": str(e)}
    width = {"u8": 8, "u16": 16, "u32": 32, "u64": 64, "usize": 64, "i32": 32, "i64": 64, "char": 32}
    queries, meta = [], []
    for bb, kind, ty in sites:
        # the cast feeding this argument: in the same block, from the char parameter _2
        cs = [c for c in casts if c[0] == bb and c[2] == "_2"]
        ok_shape = kind == "lower_hex" and len(cs) == 1 and cs[0][3] == ty and ty in width
        w = width.get(ty, 0)
        if ok_shape:
            trunc = "((_ zero_extend %d) ((_ extract %d 0) c))" % (32 - min(w, 32), min(w, 32) - 1) if w < 32 else "c"
            q = ("(declare-const c (_ BitVec 32))\n"
                 "(assert (and (bvule c #x0010ffff) (not (and (bvuge c #x0000d800) (bvule c #x0000dfff)))))\n"
                 "(assert (not (= %s c)))" % trunc)
        else:
            q = "(assert true)"
        queries.append(q)
        meta.append({"block": bb, "format": kind, "type": ty, "shape_ok": ok_shape})
    n_hex = len(queries)
    try:
        cq, cm = canonical_obligations(mir)
    except Exception as e:  # noqa
        log("  mirsmt C55: canonical printing: cannot analyse (%s)" % e)
        return {"exit": EXIT_INCONCLUSIVE, "mirsmt_error": str(e)}
    queries += cq
    meta += cm
    br = smt.check_batch(queries, thorough=thorough)
    res = {"evaluations": len(queries), "distinct_nontrivial": 0, "samples": [],
           "mirsmt_regions": ["heap_print::char_to_string (format! arm)",
                              "every function of heap_print.rs that emits an operator token"],
           "mirsmt_seconds": br["z3_s"]}
    if br["results"] is None:
        res["exit"] = EXIT_INCONCLUSIVE
        return res
    viol, cviol = [], []
    for m, r in zip(meta[n_hex:], br["results"][n_hex:]):
        if r["answer"] == "unsat":
            res["distinct_nontrivial"] += 1
        else:
            cviol.append({**m, "answer": r["answer"]})
        res["samples"].append({"query": m["obligation"], "answer": r["answer"]})
    if cviol:
        res["mirsmt_violations"] = cviol
        from .. import prolog
        rp = prolog.replay_canonical(cviol)
        if rp["reproduced"]:
            log("VIOLATION property=C55 replay=%s" % rp["path"])
            res["exit_canonical"] = EXIT_VIOLATION
        else:
            log("  mirsmt C55: the write_canonical replay answers as specified (%s) -> inconclusive" % rp.get("why"))
            res["exit_canonical"] = EXIT_INCONCLUSIVE
    for m, r in zip(meta[:n_hex], br["results"][:n_hex]):
        good = r["answer"] == "unsat" and m["shape_ok"]
        res["distinct_nontrivial"] += good
        if not good:
            viol.append({**m, "answer": r["answer"]})
        res["samples"].append({"query": "char_to_string: the hex escape prints the whole code point (%s of a %s)" % (
            m["format"], m["type"]), "answer": r["answer"] if m["shape_ok"] else "shape not recognised"})
    log("  mirsmt C55: %d format argument(s) in char_to_string + %d operator-token sites: %d obligations hold, "
        "%d + %d do not (z3 %.2fs)" % (n_hex, len(queries) - n_hex, res["distinct_nontrivial"], len(viol),
                                       len(cviol), br["z3_s"]))
    res["exit"] = EXIT_OK
    if viol:
        res.setdefault("mirsmt_violations", []).extend(viol)
        from .. import prolog
        rp = prolog.replay_hex_escapes(viol)
        if rp["reproduced"]:
            log("VIOLATION property=C55 replay=%s" % rp["path"])
            res["exit"] = EXIT_VIOLATION
        else:
            log("  mirsmt C55: the escape replay answers as specified (%s) -> inconclusive" % rp.get("why"))
            res["exit"] = EXIT_INCONCLUSIVE
    ec = res.pop("exit_canonical", EXIT_OK)
    if ec == EXIT_VIOLATION or (ec == EXIT_INCONCLUSIVE and res["exit"] == EXIT_OK):
        res["exit"] = ec
    return res


def canonical_obligations(mir):
    """write_canonical / ignore_ops(true): operator notation is never produced. Every function of
    heap_print.rs that pushes TokenOrRedirect::Op itself or calls the emitter `enqueue_op` is found
    from the MIR; on each of its paths that does so, the printer's `ignore_ops` flag must have been
    read and found false (z3: emits => asked_and_false, per path). The emitter itself and derived
    Clone impls are not sites."""
    io_idx = util.struct_field_index("src/heap_print.rs", "HCPrinter", "ignore_ops")
    queries, meta = [], []
    for n in sorted(mir.index):
        if not n.startswith("heap_print::") or "closure" in n:
            continue
        short = n.split("::")[-1]
        if short in ("enqueue_op", "clone", "fmt"):
            continue
        b = mir.body(n)
        direct = any(re.search(r"TokenOrRedirect::Op\(", l) for ls in b.blocks.values() for l in ls)
        calls = any(re.search(r"::enqueue_op\(", ls[-1]) for ls in b.blocks.values())
        if not (direct or calls):
            continue
        heads = util.back_edge_targets(b)
        paths = []
        for entry in ["bb0"] + list(heads):
            paths += core.Executor(b, stop_blocks=tuple(heads), max_depth=500, max_paths=8000).run(entry)
        emit_paths, unguarded = 0, 0
        for p in paths:
            emits = any(e[0] == "call" and e[1].endswith("::enqueue_op") for e in p.events) or any(
                e[0] == "call" and e[1].endswith("::push") and e[2] and len(e[2]) > 1 and
                isinstance(e[2][1], tuple) and e[2][1][0] == "agg" and e[2][1][1].endswith("TokenOrRedirect::Op")
                for e in p.events)
            if not emits:
                continue
            emit_paths += 1
            g = [c for c in p.conds if c[0][0] == "proj" and c[0][2] == ".%d" % io_idx]
            asked_false = bool(g) and all((c[1] == "==" and c[2] == 0) for c in g)
            if not asked_false:
                unguarded += 1
        if emit_paths == 0:
            raise core.Unsupported("%s: operator token site not reached by any path" % short)
        queries.append("(declare-const emits Bool)\n(declare-const asked_false Bool)\n"
                       "(assert (and emits (= asked_false %s)))\n(assert (not (=> emits asked_false)))" % (
                           "false" if unguarded else "true"))
        meta.append({"fn": short, "obligation": "%s: operator notation only when ignore_ops is false (%d emitting "
                     "paths, %d without the test)" % (short, emit_paths, unguarded)})
    if not meta:
        raise core.Unsupported("no operator-token site found in heap_print.rs")
    return queries, meta

"""C55 (M part): the hexadecimal escape of char_to_string.

Engine K replaces std::fmt::format (formatting machinery defeats CBMC), so the one escape that is
produced by format! - `\\xH..H\\` for white space and control characters without a symbolic escape -
is decided here: on the path that formats, the value handed to LowerHex is the character's full
code point: z3 decides `formatted == zext32(c)` for every scalar value c, where the formatted value
is the extracted cast chain with its target width (u32 keeps all 21 bits; a narrower cast is
modelled as truncation and makes the query satisfiable, e.g. U+2028)."""
import re

from .. import smt
from ..common import EXIT_INCONCLUSIVE, EXIT_OK, EXIT_VIOLATION, log
from . import core, util


def run(thorough=False):
    try:
        mir, secs, cached = util.get()
        names = [n for n in mir.index if n.split("::")[-1] == "char_to_string"]
        if len(names) != 1:
            raise core.Unsupported("char_to_string: %s" % names)
        body = mir.body(names[0])
        sites = []
        for bb, ls in body.blocks.items():
            for l in ls:
                m = re.search(r"Argument::<'_>::new_(\w+)::<(\w+)>\(", l)
                if m:
                    sites.append((bb, m.group(1), m.group(2)))
        casts = []
        for bb, ls in body.blocks.items():
            for l in ls:
                m = re.match(r"^\s*(_\d+) = copy (_\d+) as (\w+) \((\w+)\);", l)
                if m:
                    casts.append((bb, m.group(1), m.group(2), m.group(3), m.group(4)))
        if not sites:
            raise core.Unsupported("no fmt argument constructed in char_to_string")
    except Exception as e:  # noqa
        log("  mirsmt C55: cannot analyse (%s)" % e)
        return {"exit": EXIT_INCONCLUSIVE, "mirsmt_error": str(e)}
    width = {"u8": 8, "u16": 16, "u32": 32, "u64": 64, "usize": 64, "i32": 32, "i64": 64, "char": 32}
    queries, meta = [], []
    for bb, kind, ty in sites:
        # the cast feeding this argument: in the same block, from the char parameter _2
        cs = [c for c in casts if c[0] == bb and c[2] == "_2"]
        ok_shape = kind == "lower_hex" and len(cs) == 1 and cs[0][3] == ty and ty in width
        w = width.get(ty, 0)
        if ok_shape:
            trunc = "((_ zero_extend %d) ((_ extract %d 0) c))" % (32 - min(w, 32), min(w, 32) - 1) if w < 32 else "c"
            q = ("(declare-const c (_ BitVec 32))\n"
                 "(assert (and (bvule c #x0010ffff) (not (and (bvuge c #x0000d800) (bvule c #x0000dfff)))))\n"
                 "(assert (not (= %s c)))" % trunc)
        else:
            q = "(assert true)"
        queries.append(q)
        meta.append({"block": bb, "format": kind, "type": ty, "shape_ok": ok_shape})
    br = smt.check_batch(queries, thorough=thorough)
    res = {"evaluations": len(queries), "distinct_nontrivial": 0, "samples": [],
           "mirsmt_regions": ["heap_print::char_to_string (format! arm)"], "mirsmt_seconds": br["z3_s"]}
    if br["results"] is None:
        res["exit"] = EXIT_INCONCLUSIVE
        return res
    viol = []
    for m, r in zip(meta, br["results"]):
        good = r["answer"] == "unsat" and m["shape_ok"]
        res["distinct_nontrivial"] += good
        if not good:
            viol.append({**m, "answer": r["answer"]})
        res["samples"].append({"query": "char_to_string: the hex escape prints the whole code point (%s of a %s)" % (
            m["format"], m["type"]), "answer": r["answer"] if m["shape_ok"] else "shape not recognised"})
    log("  mirsmt C55: %d format argument(s) in char_to_string, %d print the whole code point, %d do not "
        "(z3 %.2fs)" % (len(queries), res["distinct_nontrivial"], len(viol), br["z3_s"]))
    res["exit"] = EXIT_OK
    if viol:
        res["mirsmt_violations"] = viol
        from .. import prolog
        rp = prolog.replay_hex_escapes(viol)
        if rp["reproduced"]:
            log("VIOLATION property=C55 replay=%s" % rp["path"])
            res["exit"] = EXIT_VIOLATION
        else:
            log("  mirsmt C55: the escape replay answers as specified (%s) -> inconclusive" % rp.get("why"))
            res["exit"] = EXIT_INCONCLUSIVE
    return res

"""The arms of the comparison functions on Number (cmp, eq, and the usize variants).

For every pair of representations the arm is summarised as
    domain   : 'float' if either side is converted with to_f64 / `as f64` / compared as
               OrderedFloat, else 'exact'
    lossy    : a saturating / partial conversion (try_into, try_from, unwrap_or, to_f64_fast ...)
               appears in the arm
    compare  : the comparison primitive called, and whether the value derived from `self` is
               its first operand
and compared with the specification the property states: exact between integers and rationals of
any size; after converting the integer or rational to a double when one side is a float; never
lossy; cmp compares (self, other) in that order; eq and cmp of the same pair use the same domain."""
import re

from .. import smt
from ..common import EXIT_INCONCLUSIVE, EXIT_OK, EXIT_VIOLATION, log
from . import core, util
from .c05 import number_variants, rooted_in

LOSSY = re.compile(r"try_into$|try_from$|::unwrap_or$|to_f64_fast$|to_f32|::signum$|::sign$|is_positive$|"
                   r"is_negative$|leading_zeros$|bit_len$")
CMP = re.compile(r"(Ord>::cmp|NumOrd<.*>>::num_(cmp|partial_cmp|eq|lt|gt|le|ge)|PartialEq(<.*>)?>::eq|"
                 r"PartialOrd(<.*>)?>::partial_cmp)$")


def fn_body(mir, kind, rhs):
    """kind in {cmp, eq, partial_cmp}; rhs in {Number, usize}"""
    for n in mir.index:
        if not re.search(r"^arithmetic::<impl at [^>]*>::%s$" % kind, n):
            continue
        hdr = mir.lines[mir.index[n][0][0]]
        if "_1: &forms::Number" in hdr and ("_2: &forms::Number" in hdr if rhs == "Number"
                                             else "_2: &usize" in hdr):
            return mir.body(n)
    raise core.Unsupported("Number::%s(%s) not found" % (kind, rhs))


def arms(mir, kind, rhs, variants):
    body = fn_body(mir, kind, rhs)
    paths = core.Executor(body, max_depth=300, max_paths=2000).run("bb0")
    out = {}
    for p in paths:
        if p.end != "return":
            continue
        va = vb = None
        for t, op, v in p.conds:
            if t[0] == "disc" and op == "==":
                root, projs = util.field_path(t[1])
                if root == ("s", "_1") and projs == ["*"]:
                    va = variants.get(v)
                elif root == ("s", "_2") and projs == ["*"]:
                    vb = variants.get(v)
        if va is None:
            continue
        key = (va, vb if rhs == "Number" else "usize")
        calls = [e for e in p.events if e[0] == "call"]
        names = [e[1] for e in calls]
        isfloat = any(re.search(r"::to_f64$|OrderedFloat<f64> as", n) for n in names) or \
            "IntToFloat" in str(p.env.get("_0")) or any("IntToFloat" in str(e[2]) for e in calls) or \
            any("IntToFloat" in str(v) for v in p.env.values() if isinstance(v, tuple))
        lossy = [n.split("::")[-1] for n in names if LOSSY.search(n) and
                 "Option::<std::cmp::Ordering>" not in n]
        if any(re.search(r"::to_f64$", n) for n in names) and not any(n.endswith("::value") for n in names):
            lossy.append("to_f64 without .value()")
        cmpc = [e for e in calls if CMP.search(e[1])]
        prim, straight = None, None
        if cmpc:
            e = cmpc[-1]
            prim = re.sub(r"^.* as ", "", e[1]).rstrip(">")
            a = e[2]
            if len(a) >= 2:
                s0 = rooted_in(a[0], lambda x: x == ("s", "_1"), p.env)
                s1 = rooted_in(a[1], lambda x: x == ("s", "_2"), p.env)
                r0 = rooted_in(a[0], lambda x: x == ("s", "_2"), p.env)
                r1 = rooted_in(a[1], lambda x: x == ("s", "_1"), p.env)
                straight = True if (s0 and s1 and not (r0 or r1)) else (False if (r0 and r1) else None)
        # branch-only decisions (e.g. `n < 0 => Less`) are recorded as a primitive-free arm
        rec = {"domain": "float" if isfloat else "exact", "lossy": sorted(set(lossy)),
               "compare": prim, "straight": straight, "calls": len(calls)}
        out.setdefault(key, []).append(rec)
    return out


def expected_domain(a, b):
    return "float" if "Float" in (a, b) else "exact"


def check_tables(mir):
    """returns (rows, problems)"""
    variants = number_variants()
    cmp_t = arms(mir, "cmp", "Number", variants)
    eq_t = arms(mir, "eq", "Number", variants)
    pc_u = arms(mir, "partial_cmp", "usize", variants)
    eq_u = arms(mir, "eq", "usize", variants)
    rows, problems = [], []
    names = ["Float", "Integer", "Rational", "Fixnum"]
    for a in names:
        for b in names:
            for tname, tab, need_order in (("cmp", cmp_t, True), ("eq", eq_t, False)):
                rs = tab.get((a, b))
                if not rs:
                    problems.append({"fn": tname, "pair": "%s x %s" % (a, b), "why": "no arm"})
                    continue
                for r in rs:
                    ok = r["domain"] == expected_domain(a, b) and not r["lossy"] and \
                        r["compare"] is not None and (not need_order or r["straight"] is True)
                    rows.append((tname, a, b, ok))
                    if not ok:
                        problems.append({"fn": tname, "pair": "%s x %s" % (a, b), **r})
    for a in names:
        for tname, tab in (("partial_cmp<usize>", pc_u), ("eq<usize>", eq_u)):
            rs = tab.get((a, "usize"))
            if not rs:
                problems.append({"fn": tname, "pair": a, "why": "no arm"})
                continue
            # Fixnum has a sign branch (negative => Less / false) next to the comparing path
            comparing = [r for r in rs if r["compare"] is not None]
            ok = bool(comparing) and all(not r["lossy"] for r in rs) and \
                all(r["domain"] == ("float" if a == "Float" else "exact") for r in comparing)
            if a != "Fixnum":
                ok = ok and len(comparing) == len(rs)
            rows.append((tname, a, "usize", ok))
            if not ok:
                problems.append({"fn": tname, "pair": a, "arms": rs})
    return rows, problems


def run(thorough=False, label="C04"):
    try:
        mir, secs, cached = util.get()
        rows, problems = check_tables(mir)
    except Exception as e:  # noqa
        log("  mirsmt %s numarms: cannot analyse (%s)" % (label, e))
        return {"exit": EXIT_INCONCLUSIVE, "mirsmt_error": str(e)}
    a = b = "0"
    for i, r in enumerate(rows):
        a = "(ite (= f %d) %d %s)" % (i, 1 if r[3] else 0, a)
        b = "(ite (= f %d) 1 %s)" % (i, b)
    q = "(declare-const f Int)\n(assert (and (>= f 0) (< f %d)))\n(assert (not (= %s %s)))" % (len(rows), a, b)
    br = smt.check_batch([q], thorough=thorough, getvals=[["f"]])
    ans = br["results"][0]["answer"] if br["results"] else None
    good = sum(1 for r in rows if r[3])
    log("  mirsmt %s: %d comparison arms of Number (cmp, eq, usize variants): %d conform to the "
        "specification table, query %s" % (label, len(rows), good, ans))
    res = {"evaluations": len(rows), "distinct_nontrivial": good,
           "samples": [{"fn": r[0], "pair": "%s x %s" % (r[1], r[2]), "conforms": r[3]} for r in rows[:6]],
           "numarms_seconds": br["z3_s"]}
    if ans is None or (ans == "sat") != bool(problems):
        res["exit"] = EXIT_INCONCLUSIVE
        return res
    if problems:
        res["numarms_problems"] = problems[:10]
        from .. import prolog
        rp = prolog.replay_number_comparisons(problems, prop=label)
        if rp["reproduced"]:
            log("VIOLATION property=%s replay=%s" % (label, rp["path"]))
            res["exit"] = EXIT_VIOLATION
        else:
            for pr in problems[:4]:
                log("    arm differs: %s" % pr)
            log("  mirsmt %s: arm difference did not reproduce on the binary (%s) -> inconclusive" % (
                label, rp.get("why")))
            res["exit"] = EXIT_INCONCLUSIVE
    return res

"""C02 (M part): each float-valued kernel reaches exactly the IEEE/libm function its ISO name
prescribes. The set of `std::f64::<impl f64>::*` calls in the kernel body and its closures is read
off the MIR call terminators and compared with the specification table (decided as a finite map
equality by z3, like C03)."""
import re

from .. import smt
from ..common import EXIT_INCONCLUSIVE, EXIT_OK, EXIT_VIOLATION, log
from . import core, util

SPEC = {
    "sin": {"sin"}, "cos": {"cos"}, "tan": {"tan"}, "log": {"log"}, "exp": {"exp"},
    "asin": {"asin"}, "acos": {"acos"}, "atan": {"atan"}, "atan2": {"atan2"}, "sqrt": {"sqrt"},
    "float_fractional_part": {"fract"}, "float_integer_part": {"trunc"},
    "float_pow": {"powf"}, "int_pow": {"powf", "floor"}, "round": {"round"},
}
IGNORE = {"is_nan", "is_finite", "is_infinite", "classify", "is_sign_negative", "is_sign_positive",
          "abs", "to_bits", "from_bits", "signum", "copysign"}


def run(thorough=False):
    try:
        mir, secs, cached = util.get()
        got = {}
        for k in SPEC:
            names = [n for n in mir.index if re.search(r"(^|::)%s(::\{closure#\d+\})*$" % re.escape(k), n)
                     and (n.startswith("arithmetic_ops::") or n.startswith(k))]
            if not names:
                raise core.Unsupported("kernel %s not found" % k)
            fs = set()
            for n in names:
                for (s, e) in mir.index[n]:
                    for l in mir.lines[s:e]:
                        m = re.search(r"std::f64::<impl f64>::(\w+)\(", l)
                        if m and m.group(1) not in IGNORE:
                            fs.add(m.group(1))
            got[k] = fs
    except Exception as e:  # noqa
        log("  mirsmt C02: cannot read the kernels (%s)" % e)
        return {"exit": EXIT_INCONCLUSIVE, "mirsmt_error": str(e)}
    keys = sorted(SPEC)
    ids = {}

    def sid(s):
        return ids.setdefault(frozenset(s), len(ids) + 1)
    a = b = "0"
    for i, k in enumerate(keys):
        a = "(ite (= f %d) %d %s)" % (i, sid(got[k]), a)
        b = "(ite (= f %d) %d %s)" % (i, sid(SPEC[k]), b)
    q = ("(declare-const f Int)\n(assert (and (>= f 0) (< f %d)))\n(assert (not (= %s %s)))" % (
        len(keys), a, b))
    br = smt.check_batch([q], thorough=thorough, getvals=[["f"]])
    diffs = [{"kernel": k, "calls": sorted(got[k]), "expected": sorted(SPEC[k])}
             for k in keys if got[k] != SPEC[k]]
    ans = br["results"][0]["answer"] if br["results"] else None
    log("  mirsmt C02: %d float kernels, libm wiring query %s, %d differences" % (
        len(keys), ans, len(diffs)))
    res = {"evaluations": 1 + len(keys), "distinct_nontrivial": len(keys) - len(diffs),
           "samples": [{"kernel": k, "ieee_calls": sorted(got[k])} for k in keys[:6]],
           "mirsmt_regions": ["arithmetic_ops::{%s} and their closures" % ",".join(keys)],
           "mirsmt_seconds": br["z3_s"]}
    if ans is None or (ans == "sat") != bool(diffs):
        res["exit"] = EXIT_INCONCLUSIVE
        return res
    if diffs:
        res["mirsmt_differences"] = diffs
        from .. import prolog
        rp = prolog.replay_float_functions(diffs)
        if rp["reproduced"]:
            log("VIOLATION property=C02 replay=%s" % rp["path"])
            res["exit"] = EXIT_VIOLATION
        else:
            for d in diffs:
                log("    differs: %s" % d)
            log("  mirsmt C02: wiring difference did not reproduce on the binary (%s) -> "
                "inconclusive" % rp.get("why"))
            res["exit"] = EXIT_INCONCLUSIVE
    return res

"""C10, the occurs-check side (unify_with_occurs_check/2 and `=` under the occurs_check flag), engine M.

(a) unify::bind_with_occurs_check, every path (the traversal loop as one iteration from its head):
    - the value is bound WITHOUT being traversed only when the variable is a stack cell or
      HeapCellValue::is_constant(value) holds - no other test (a tag test on the value, say) opens a way
      around the traversal;
    - the traversal starts at the value itself (heap[0] := value, iterator rooted at 0);
    - an iteration that meets the variable (as_var(cell) = Some(r') and r = r') sets `fail` and does not bind;
      any other iteration goes on; when the traversal is exhausted without a hit the value is bound, and
      after a hit it is not.
(b) the head-unification helpers of dispatch.rs (get_* / unify_* instruction helpers): a direct
    MachineState::bind (which never performs the occurs check) only ever binds to a cell built on the spot
    (HeapCellValue::build_with, a constant, a character, a freshly allocated string); a value read from the
    machine (a register, the store, a dereferenced cell, a heap slot) is bound through the occurs-check
    dispatcher `self.occurs_check.bind`.
The heap iterator behind the traversal (which cells it yields) stays outside."""
import re

from ..common import EXIT_INCONCLUSIVE, EXIT_OK, EXIT_VIOLATION, log
from . import core, util


def _has_app(t, pat, depth=0):
    if not isinstance(t, tuple) or depth > 40:
        return False
    if t[0] == "app" and re.search(pat, t[1]):
        return True
    if t[0] in ("app", "op", "agg"):
        return any(_has_app(a, pat, depth + 1) for a in t[2])
    if t[0] in ("proj", "disc"):
        return _has_app(t[1], pat, depth + 1)
    return False


def occurs_obligations(mir):
    st = []
    ns = [n for n in mir.index if n.endswith("bind_with_occurs_check") and "{closure" not in n]
    if len(ns) != 1:
        raise core.Unsupported("bind_with_occurs_check: %s" % ns)
    body = mir.body(ns[0])
    heads = util.back_edge_targets(body)
    if len(heads) != 1:
        raise core.Unsupported("bind_with_occurs_check: %d loops" % len(heads))
    fail_idx = util.struct_field_index("src/machine/machine_state.rs", "MachineState", "fail")
    ex = lambda e: core.Executor(body, stop_blocks=tuple(heads), max_depth=300, max_paths=500).run(e)
    pre, loop = ex("bb0"), ex(heads[0])
    is_bind = lambda e: e[0] == "call" and e[1].endswith("Unifier>::bind")
    ok, why, n_short = True, "", 0
    root_ok = True
    for p in pre:
        binds = [e for e in p.events if is_bind(e)]
        if p.end == "return" and binds:
            n_short += 1
            for c in p.conds:
                t = c[0]
                stack = t[0] == "disc" and t[1][0] == "app" and t[1][1].endswith("Ref::get_tag") and c[1] == "=="
                const = t[0] == "app" and t[1].endswith("HeapCellValue::is_constant") and \
                    ((c[1] == "not_in" and 0 in c[2]) or (c[1] == "==" and c[2] == 1))
                if not (stack or const or (t[0] == "disc" and t[1][0] == "app" and t[1][1].endswith("Ref::get_tag"))):
                    ok, why = False, "bound untraversed under the condition %s %s %s" % (util.term_str(t)[:60], c[1], c[2])
            if not any((c[0][0] == "disc" and c[1] == "==") or (c[0][0] == "app" and c[0][1].endswith("is_constant"))
                       for c in p.conds):
                ok, why = False, "bound untraversed unconditionally"
            if binds[0][2][1:] != (("s", "_2"), ("s", "_3")):
                ok, why = False, "binds something else than (r, value)"
        elif p.end == heads[0]:
            it = [e for e in p.events if e[0] == "call" and e[1].endswith("stackful_preorder_iter")]
            stv = [e for e in p.events if e[0] == "store" and e[2] == ("s", "_3")]
            im = [e for e in p.events if e[0] == "call" and e[1].endswith("IndexMut<usize>>::index_mut")]
            root_ok = root_ok and len(it) == 1 and it[0][2][-1] == ("c", 0) and len(stv) == 1 and \
                len(im) == 1 and im[0][2][-1] == ("c", 0) and not binds
        elif p.end != "diverge":
            ok, why = False, "a path neither binds nor starts the traversal"
    st.append({"obligation": "occurs check: the value is bound untraversed only for a stack variable or a constant "
               "value (%d such paths)" % n_short, "ok": ok and n_short > 0, "why": why})
    st.append({"obligation": "occurs check: the traversal is rooted at the value itself (heap[0] := value)", "ok": root_ok})
    ok, why, kinds = True, "", set()
    for p in loop:
        binds = [e for e in p.events if is_bind(e)]
        fails = [e for e in p.events if e[0] == "store" and e[1].endswith(".%d" % fail_idx)]
        nxt = [c for c in p.conds if c[0][0] == "disc" and c[0][1][0] == "app" and c[0][1][1].endswith("Iterator>::next")]
        if not nxt:
            ok, why = False, "a loop path does not consult the iterator"
            continue
        some = nxt[0][1] == "==" and nxt[0][2] == 1
        hit_c = [c for c in p.conds if c[0][0] == "app" and c[0][1].endswith("Ref as PartialEq>::eq")]
        hit = bool(hit_c) and ((hit_c[0][1] == "not_in" and 0 in hit_c[0][2]) or (hit_c[0][1] == "==" and hit_c[0][2] == 1))
        if some and hit:
            kinds.add("hit")
            eqargs = [e for e in p.events if e[0] == "call" and e[1].endswith("Ref as PartialEq>::eq")][0][2]
            if binds or [f[2] for f in fails] != [("c", 1)] or p.end != "return" or eqargs[0] != ("ref", "_2"):
                ok, why = False, "meeting the variable does not end in fail without binding"
        elif some:
            kinds.add("step")
            if binds or fails or p.end != heads[0]:
                ok, why = False, "an iteration that does not meet the variable does not simply go on"
        else:
            flag = [c for c in p.conds if c[0][0] == "s"]
            if binds and not fails and p.end == "return":
                kinds.add("exhausted")
            elif fails and not binds:
                kinds.add("exhausted after hit")
            else:
                ok, why = False, "end of traversal neither binds nor fails"
    st.append({"obligation": "occurs check: meeting the variable fails without binding, other cells go on, an exhausted "
               "traversal binds", "ok": (ok if {"hit", "step", "exhausted"} <= kinds or not ok else None),
               "why": why or "path kinds: %s" % sorted(kinds)})
    return st


HELPERS = r"::(get_\w+_instr|unify_\w+_instr)$"


def helper_obligations(mir):
    st = []
    names = [n for n in mir.index if re.search(HELPERS, n) and "{closure" not in n]
    n_direct = n_disp = 0
    bad = []
    for n in sorted(names):
        body = mir.body(n)
        heads = util.back_edge_targets(body)
        for entry in ["bb0"] + list(heads):
            for p in core.Executor(body, stop_blocks=tuple(heads), max_depth=500, max_paths=6000).run(entry):
                for e in p.events:
                    if e[0] != "call":
                        continue
                    if e[1].endswith("OccursCheckImpl>::bind"):
                        n_disp += 1
                    elif re.search(r"MachineState>?::bind$", e[1]):
                        n_direct += 1
                        v = e[2][-1]
                        # a value read from the machine: the store / a dereferenced cell / a register or heap slot
                        if _has_app(v, r"::(store|deref)$|Index<.*>>::index$") or v[0] == "s":
                            bad.append("%s binds %s directly" % (n.split("::")[-1], util.term_str(v)[:50]))
    st.append({"obligation": "head unification: a direct MachineState::bind binds only a cell built on the spot; values "
               "read from the machine go through occurs_check.bind (%d helpers, %d direct, %d dispatched binds on "
               "their paths)" % (len(names), n_direct, n_disp),
               "ok": (not bad) if (n_direct and n_disp) else None, "why": "; ".join(sorted(set(bad))[:3])})
    return st


def run(thorough=False):
    try:
        mir, secs, cached = util.get()
        st = occurs_obligations(mir) + helper_obligations(mir)
    except Exception as e:  # noqa
        log("  mirsmt C10 occurs check: cannot analyse (%s)" % e)
        return {"exit": EXIT_INCONCLUSIVE, "mirsmt_error": str(e)}
    res = {"evaluations": len(st), "distinct_nontrivial": 0, "samples": [],
           "mirsmt_regions": ["unify::bind_with_occurs_check", "dispatch.rs get_*_instr / unify_*_instr helpers"],
           "mirsmt_seconds": 0.0}
    viol, unknown = [], []
    for s in st:
        if s["ok"] is True:
            res["distinct_nontrivial"] += 1
        elif s["ok"] is False:
            viol.append({"region": "occurs check", "problem": s["obligation"] + ": " + s.get("why", "")})
        else:
            unknown.append(s)
        res["samples"].append({"query": s["obligation"], "answer": {True: "holds", False: "fails", None: "not understood"}[s["ok"]],
                               "note": s.get("why", "")})
    log("  mirsmt C10 occurs check: %d obligations, %d hold, %d violated, %d not understood" % (
        len(st), res["distinct_nontrivial"], len(viol), len(unknown)))
    res["exit"] = EXIT_OK
    if viol:
        res["mirsmt_violations"] = viol
        from .. import prolog
        rp = prolog.replay_unification(viol)
        if rp["reproduced"]:
            log("VIOLATION property=C10 replay=%s" % rp["path"])
            res["exit"] = EXIT_VIOLATION
        else:
            for v in viol[:4]:
                log("    fails: %s" % v)
            log("  mirsmt C10 occurs check: the replay answers as specified (%s) -> inconclusive" % rp.get("why"))
            res["exit"] = EXIT_INCONCLUSIVE
    elif unknown:
        res["mirsmt_not_understood"] = unknown
        for u in unknown[:4]:
            log("    not understood: %s" % u)
        res["exit"] = EXIT_INCONCLUSIVE
    return res

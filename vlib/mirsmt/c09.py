"""C09 (visibility predicate): every place that decides whether a dynamic clause stamped
(birth, death) is visible to a call observing generation cc uses exactly
        birth < cc  /\  Finite(cc) <= death.
Regions: Machine::find_living_dynamic_else (4 arms), Machine::find_living_dynamic,
dynamic_external_of_clause_is_valid (if present). z3 decides, per arm, that the set of paths
returning `Some` is exactly the set where the predicate holds, and that a dead clause is skipped
to p + next (next > 0) or ends the chain (None)."""
import re

from .. import smt
from ..common import EXIT_INCONCLUSIVE, EXIT_OK, EXIT_VIOLATION, log
from . import core, util
from .smtgen import Encoder


def analyse(mir, fname_pat, cc_idx):
    name = mir.find(fname_pat)
    if len(name) != 1:
        raise core.Unsupported("%s: %d matches" % (fname_pat, len(name)))
    body = mir.body(name[0])
    heads = util.back_edge_targets(body)
    if not heads:
        # straight-line function: whole body
        return body, None, core.Executor(body, max_depth=200).run("bb0")
    head = heads[0]
    ex = core.Executor(body, stop_blocks=[head], max_depth=200)
    paths = ex.run(head)
    return body, head, paths


def is_cc(t, cc_idx):
    root, projs = util.field_path(t)
    return root == ("s", "_1") and projs == ["*", ".0", ".%d" % cc_idx]


def classify_path(p, cc_idx):
    """-> dict(arm, lt, le, flow_ok, outcome, next_pos) or None for irrelevant paths"""
    lt = le = None
    flow = True
    birth = death = None
    arm = []
    nextpos = None
    for t, op, v in p.conds:
        if t[0] == "disc":
            arm.append((util.term_str(t[1])[-40:], v if op == "==" else "other"))
            continue
        if t[0] == "op" and t[1] == "Lt":
            a, b = t[2]
            truth = (v != 0) if op == "==" else (0 in v)
            if is_cc(b, cc_idx) and a[0] == "proj" and a[2] == ".0":
                lt = truth
                birth = a
            else:
                flow = False
            continue
        if t[0] == "app" and t[1].endswith("PartialOrd>::le"):
            truth = (v != 0) if op == "==" else (0 in v)
            le = truth
            a0, a1 = t[2]
            v0 = p.env.get(a0[1]) if a0[0] == "ref" else None
            v1 = p.env.get(a1[1]) if a1[0] == "ref" else None
            ok0 = bool(v0 and v0[0] == "agg" and v0[1].endswith("Death::Finite") and
                       is_cc(v0[2][0], cc_idx))
            ok1 = bool(v1 and v1[0] == "proj" and v1[2] == ".1")
            if birth is not None and ok1:
                ok1 = (v1[1] == birth[1])      # same instruction cell as the birth stamp
            death = v1
            if not (ok0 and ok1):
                flow = False
            continue
        if t[0] == "op" and t[1] in ("Gt", "Ne", "Eq", "Lt") and any(
                x[0] == "proj" and "Next" in util.term_str(x) for x in t[2]):
            truth = (v != 0) if op == "==" else (0 in v)
            nextpos = truth if t[1] in ("Gt", "Ne") else (not truth)
    r = p.env.get("_0")
    if p.end == "return":
        if r and r[0] == "agg" and r[1].endswith("::Some"):
            outcome = "some"
        elif r and r[0] == "agg" and r[1].endswith("::None"):
            outcome = "none"
        elif r == ("c", 1):
            outcome = "some"
        elif r == ("c", 0):
            outcome = "none"
        elif r and r[0] == "app" and r[1].endswith("PartialOrd>::le") and le is None:
            # `lt && le` returned without branching on le: the result IS le
            a0, a1 = r[2]
            v0 = p.env.get(a0[1]) if a0[0] == "ref" else None
            v1 = p.env.get(a1[1]) if a1[0] == "ref" else None
            ok = bool(v0 and v0[0] == "agg" and v0[1].endswith("Death::Finite") and
                      is_cc(v0[2][0], cc_idx) and v1 and v1[0] == "proj" and v1[2] == ".1" and
                      (birth is None or v1[1] == birth[1]))
            base = {"arm": tuple(arm), "lt": lt, "flow_ok": flow and ok, "nextpos": nextpos}
            return [dict(base, le=True, outcome="some"), dict(base, le=False, outcome="none")]
        else:
            outcome = "ret?"
    elif p.end == "diverge":
        outcome = "panic"
    else:
        outcome = "cont"
    return {"arm": tuple(arm), "lt": lt, "le": le, "flow_ok": flow, "outcome": outcome,
            "nextpos": nextpos}


def variant_order(src_rel, enum):
    import os
    from ..common import REPO
    with open(os.path.join(REPO, src_rel)) as f:
        txt = f.read()
    m = re.search(r"pub(?:\([\w:]+\))? enum %s \{(.*?)\n\}" % enum, txt, re.S)
    if not m:
        raise core.Unsupported("enum %s not found" % enum)
    return re.findall(r"^\s*(\w+)\s*(?:\(|\{|,|=)", m.group(1), re.M)


def cc_setters(mir, cc_idx):
    """functions whose body assigns MachineState.cc"""
    out = set()
    pat = re.compile(r"MachineState\)\.%d: usize\) = |\(\(\*_1\)\.%d: usize\) = " % (cc_idx, cc_idx))
    for name, spans in mir.index.items():
        for (s0, e0) in spans:
            if any(pat.search(l) for l in mir.lines[s0:e0]):
                out.add(name)
    return out


def generation_restored_first(mir, cc_idx):
    """In the three dispatch arms that examine clause stamps, on every path the call's generation is
    (re-)established - a store to cc or a call to a function that stores to cc - before the first
    find_living_dynamic* call."""
    dl = mir.body(mir.find(r"::dispatch_loop$")[0])
    head = util.loop_head(dl)
    setters = cc_setters(mir, cc_idx)
    setter_tail = {n.split("::")[-1] for n in setters if not n.endswith("dispatch_loop")}
    # Instruction discriminants of the two stamp-carrying variants, read off find_living_dynamic_else
    fl = mir.body(mir.find(r"::find_living_dynamic_else$")[0])
    disc = {}
    for bb, ls in fl.blocks.items():
        m = re.match(r"^switchInt\(move (_\d+)\) -> \[(.*)\];$", ls[-1])
        if not m:
            continue
        for val, tgt in re.findall(r"(\d+): (bb\d+)", m.group(2)):
            txt = " ".join(fl.blocks.get(tgt, []))
            mm = re.search(r" as (Dynamic\w*Else)\)", txt)
            if mm:
                disc.setdefault(mm.group(1), int(val))
    if set(disc) != {"DynamicElse", "DynamicInternalElse"}:
        raise core.Unsupported("instruction discriminants not found: %s" % disc)
    big = [(bb, ls[-1]) for bb, ls in dl.blocks.items()
           if ls[-1].startswith("switchInt") and ls[-1].count(": bb") > 100]
    if len(big) != 1:
        raise core.Unsupported("main instruction switch not unique")
    tmap = dict(re.findall(r"(\d+): (bb\d+)", big[0][1]))
    entries = {v: tmap[str(d)] for v, d in disc.items()}
    # IndexingLine::DynamicIndexedChoice arm: a switch on the discriminant of an &IndexingLine
    il = variant_order("src/instructions.rs", "IndexingLine")
    if "DynamicIndexedChoice" not in il:
        raise core.Unsupported("IndexingLine variants: %s" % il)
    dval = il.index("DynamicIndexedChoice")
    cand = []
    for bb, ls in dl.blocks.items():
        m = re.match(r"^switchInt\(move (_\d+)\) -> \[(.*)\];$", ls[-1])
        if not m:
            continue
        dm = [re.match(r"^%s = discriminant\(\(\*(_\d+)\)\);$" % re.escape(m.group(1)), l) for l in ls]
        dm = [x for x in dm if x]
        if dm and "IndexingLine" in dl.decls.get(dm[0].group(1), ""):
            t2 = dict(re.findall(r"(\d+): (bb\d+)", m.group(2)))
            if str(dval) in t2:
                cand.append(t2[str(dval)])
    # only the arm that reads stamps (calls find_living_dynamic)
    out = []
    for name, entry in list(entries.items()) + [("DynamicIndexedChoice", c) for c in cand]:
        paths = core.Executor(dl, stop_blocks=[head], max_depth=150, max_paths=1500).run(entry)
        n_read = 0
        bad = 0
        saved, saved_bad = 0, []
        for p in paths:
            # the generation saved for the retry (a fixnum cell built from a machine-state word and
            # written to a register) must be the call's generation cc
            cur_cc = None          # value of cc on this path so far (None = the field as found)
            for e in p.events:
                if e[0] == "store" and e[1].endswith(".%d" % cc_idx) and e[1].startswith("((*_1).0)"):
                    cur_cc = e[2]
                if e[0] == "call" and e[1].endswith("Fixnum::build_with_unchecked"):
                    a = e[2][0]
                    while a[0] == "op" and a[1].startswith("cast"):
                        a = a[2][0]
                    root, projs = util.field_path(a)
                    if root == ("s", "_1") and len(projs) >= 2 and projs[0] == "*" and projs[1] == ".0":
                        saved += 1
                        is_cc = (a == cur_cc) if cur_cc is not None else (projs[-1] == ".%d" % cc_idx)
                        if not is_cc:
                            saved_bad.append("".join(projs))
            first = None
            for i, e in enumerate(p.events):
                if e[0] == "call" and re.search(r"find_living_dynamic(_else)?$", e[1]):
                    first = i
                    break
            if first is None:
                continue
            n_read += 1
            ok = False
            for e in p.events[:first]:
                if e[0] == "store" and e[1].endswith(".%d" % cc_idx) and e[1].startswith("((*_1).0)"):
                    ok = True
                if e[0] == "call" and e[1].split("::")[-1] in setter_tail:
                    ok = True
            bad += (not ok)
        if n_read:
            out.append({"arm": name, "entry": entry, "paths_reading_stamps": n_read, "unguarded": bad,
                        "saved": saved, "saved_not_cc": sorted(set(saved_bad))})
    return out


def run(thorough=False):
    try:
        mir, secs, cached = util.get()
        cc_idx = util.struct_field_index("src/machine/machine_state.rs", "MachineState", "cc")
        gen = generation_restored_first(mir, cc_idx)
        regions = [("find_living_dynamic_else", r"::find_living_dynamic_else$"),
                   ("find_living_dynamic", r"::find_living_dynamic$"),
                   ("dynamic_external_of_clause_is_valid",
                    r"^dynamic_external_of_clause_is_valid$")]
        results = []
        for rname, pat in regions:
            body, head, paths = analyse(mir, pat, cc_idx)
            recs = []
            for p in paths:
                c = classify_path(p, cc_idx)
                recs.extend(c if isinstance(c, list) else [c])
            results.append((rname, recs))
    except Exception as e:  # noqa
        log("  mirsmt C09: cannot analyse (%s)" % e)
        return {"exit": EXIT_INCONCLUSIVE, "mirsmt_error": str(e)}
    queries, meta = [], []
    for rname, recs in results:
        arms = {}
        for r in recs:
            if r["lt"] is None and r["le"] is None:
                continue       # paths that do not consult the stamps (RevJmpBy, unreachable)
            arms.setdefault(r["arm"], []).append(r)
        for arm, rs in arms.items():
            # symbolic inputs of the arm: lt := birth < cc, le := Finite(cc) <= death,
            # pos := next > 0. Each path covers a cube of them and has an outcome.
            def cube(r):
                cs = []
                for nm in ("lt", "le", "nextpos"):
                    if r[nm] is not None:
                        cs.append(nm if r[nm] else "(not %s)" % nm)
                return "(and true %s)" % " ".join(cs)
            has_next = any(r["nextpos"] is not None for r in rs)
            live = "(and lt le)"
            some = "(or false %s)" % " ".join(cube(r) for r in rs if r["outcome"] == "some")
            none = "(or false %s)" % " ".join(cube(r) for r in rs if r["outcome"] == "none")
            cont = "(or false %s)" % " ".join(cube(r) for r in rs if r["outcome"] == "cont")
            bad = "(or false %s)" % " ".join(cube(r) for r in rs if r["outcome"] in ("panic", "ret?")
                                             or not r["flow_ok"])
            if rname == "find_living_dynamic":
                # dead clause -> try the next index (continue); live -> Some
                spec = "(and (= %s %s) (= %s (not %s)) (not %s) (not %s))" % (some, live, cont, live,
                                                                             none, bad)
            elif has_next:
                spec = ("(and (= %s %s) (= %s (and (not %s) nextpos)) (= %s (and (not %s) "
                        "(not nextpos))) (not %s))" % (some, live, cont, live, none, live, bad))
            else:
                spec = "(and (= %s %s) (= %s (not %s)) (not %s) (not %s))" % (some, live, none, live,
                                                                             cont, bad)
            q = ("(declare-const lt Bool)\n(declare-const le Bool)\n(declare-const nextpos Bool)\n"
                 "(assert (not %s))" % spec)
            queries.append(q)
            meta.append((rname, arm, len(rs)))
    if not queries:
        return {"exit": EXIT_INCONCLUSIVE, "mirsmt_error": "no stamp-reading arm found"}
    br = smt.check_batch(queries, thorough=thorough, getvals=[["lt", "le", "nextpos"]] * len(queries))
    res = {"evaluations": len(queries), "distinct_nontrivial": 0, "samples": [],
           "mirsmt_regions": [r for r, _ in results], "mirsmt_seconds": br["z3_s"],
           "mirsmt_assumptions": ["Death::le is the derived order (checked by the K harness "
                                  "c09_death_order)", "one step of the chain walk; the walk itself "
                                  "is induction on the chain"]}
    if br["results"] is None or (thorough and br["agree"] is False):
        res["exit"] = EXIT_INCONCLUSIVE
        return res
    viol = []
    for g in gen:
        res["evaluations"] += 1
        good = g["unguarded"] == 0
        res["distinct_nontrivial"] += good
        if not good:
            viol.append({"region": "dispatch_loop " + g["arm"], "problem": "%d of %d paths examine clause "
                         "stamps before the call's generation is established" % (
                             g["unguarded"], g["paths_reading_stamps"])})
        res["samples"].append({"query": "dispatch_loop %s arm: generation established before the first "
                               "stamp read on all %d paths" % (g["arm"], g["paths_reading_stamps"]),
                               "answer": "holds" if good else "fails"})
    for g in gen:
        if not g.get("saved"):
            continue
        res["evaluations"] += 1
        good = not g["saved_not_cc"]
        res["distinct_nontrivial"] += good
        if not good:
            viol.append({"region": "dispatch_loop " + g["arm"], "problem": "the generation saved for the "
                         "retry is read from MachineState field %s, not cc" % g["saved_not_cc"]})
        res["samples"].append({"query": "dispatch_loop %s arm: the generation saved in the choice point "
                               "is cc (%d saves on the arm's paths)" % (g["arm"], g["saved"]),
                               "answer": "holds" if good else "fails"})
    if len(gen) < 3:
        res["exit"] = EXIT_INCONCLUSIVE
        res["mirsmt_error"] = "expected three stamp-reading dispatch arms, found %s" % [g["arm"] for g in gen]
        return res
    for (rname, arm, n), r, q in zip(meta, br["results"], queries):
        if r["answer"] == "unsat":
            res["distinct_nontrivial"] += 1
        else:
            viol.append({"region": rname, "arm": arm, "model": r["model"]})
        if len(res["samples"]) < 8:
            res["samples"].append({"region": rname, "arm": [a for a in arm], "paths": n,
                                   "answer": r["answer"], "query": q.split("\n")[-1][:400]})
    log("  mirsmt C09: %d stamp predicates + %d generation-order obligations, %d hold, %d "
        "violations (z3 %.2fs)" % (len(queries), len(gen), res["distinct_nontrivial"], len(viol),
                                   br["z3_s"]))
    if viol:
        res["mirsmt_violations"] = viol
        from .. import prolog
        rp = prolog.replay_logical_update_view(viol)
        if rp["reproduced"]:
            log("VIOLATION property=C09 replay=%s" % rp["path"])
            res["exit"] = EXIT_VIOLATION
        else:
            log("  mirsmt C09: model did not reproduce on the binary (%s) -> inconclusive" %
                rp.get("why"))
            res["exit"] = EXIT_INCONCLUSIVE
    return res

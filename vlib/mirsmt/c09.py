"""C09 (visibility predicate): every place that decides whether a dynamic clause stamped
(birth, death) is visible to a call observing generation cc uses exactly
        birth < cc  /\  Finite(cc) <= death.
Regions: Machine::find_living_dynamic_else (4 arms), Machine::find_living_dynamic,
dynamic_external_of_clause_is_valid (if present). z3 decides, per arm, that the set of paths
returning `Some` is exactly the set where the predicate holds, and that a dead clause is skipped
to p + next (next > 0) or ends the chain (None)."""
import re

from .. import smt
from ..common import EXIT_INCONCLUSIVE, EXIT_OK, EXIT_VIOLATION, log
from . import core, util
from .smtgen import Encoder


def analyse(mir, fname_pat, cc_idx):
    name = mir.find(fname_pat)
    if len(name) != 1:
        raise core.Unsupported("%s: %d matches" % (fname_pat, len(name)))
    body = mir.body(name[0])
    heads = util.back_edge_targets(body)
    if not heads:
        # straight-line function: whole body
        return body, None, core.Executor(body, max_depth=200).run("bb0")
    head = heads[0]
    ex = core.Executor(body, stop_blocks=[head], max_depth=200)
    paths = ex.run(head)
    return body, head, paths


def is_cc(t, cc_idx):
    root, projs = util.field_path(t)
    return root == ("s", "_1") and projs == ["*", ".0", ".%d" % cc_idx]


def classify_path(p, cc_idx):
    """-> dict(arm, lt, le, flow_ok, outcome, next_pos) or None for irrelevant paths"""
    lt = le = None
    flow = True
    birth = death = None
    arm = []
    nextpos = None
    for t, op, v in p.conds:
        if t[0] == "disc":
            arm.append((util.term_str(t[1])[-40:], v if op == "==" else "other"))
            continue
        if t[0] == "op" and t[1] == "Lt":
            a, b = t[2]
            truth = (v != 0) if op == "==" else (0 in v)
            if is_cc(b, cc_idx) and a[0] == "proj" and a[2] == ".0":
                lt = truth
                birth = a
            else:
                flow = False
            continue
        if t[0] == "app" and t[1].endswith("PartialOrd>::le"):
            truth = (v != 0) if op == "==" else (0 in v)
            le = truth
            a0, a1 = t[2]
            v0 = p.env.get(a0[1]) if a0[0] == "ref" else None
            v1 = p.env.get(a1[1]) if a1[0] == "ref" else None
            ok0 = bool(v0 and v0[0] == "agg" and v0[1].endswith("Death::Finite") and
                       is_cc(v0[2][0], cc_idx))
            ok1 = bool(v1 and v1[0] == "proj" and v1[2] == ".1")
            if birth is not None and ok1:
                ok1 = (v1[1] == birth[1])      # same instruction cell as the birth stamp
            death = v1
            if not (ok0 and ok1):
                flow = False
            continue
        if t[0] == "op" and t[1] in ("Gt", "Ne", "Eq", "Lt") and any(
                x[0] == "proj" and "Next" in util.term_str(x) for x in t[2]):
            truth = (v != 0) if op == "==" else (0 in v)
            nextpos = truth if t[1] in ("Gt", "Ne") else (not truth)
    r = p.env.get("_0")
    if p.end == "return":
        if r and r[0] == "agg" and r[1].endswith("::Some"):
            outcome = "some"
        elif r and r[0] == "agg" and r[1].endswith("::None"):
            outcome = "none"
        elif r == ("c", 1):
            outcome = "some"
        elif r == ("c", 0):
            outcome = "none"
        elif r and r[0] == "app" and r[1].endswith("PartialOrd>::le") and le is None:
            # `lt && le` returned without branching on le: the result IS le
            a0, a1 = r[2]
            v0 = p.env.get(a0[1]) if a0[0] == "ref" else None
            v1 = p.env.get(a1[1]) if a1[0] == "ref" else None
            ok = bool(v0 and v0[0] == "agg" and v0[1].endswith("Death::Finite") and
                      is_cc(v0[2][0], cc_idx) and v1 and v1[0] == "proj" and v1[2] == ".1" and
                      (birth is None or v1[1] == birth[1]))
            base = {"arm": tuple(arm), "lt": lt, "flow_ok": flow and ok, "nextpos": nextpos}
            return [dict(base, le=True, outcome="some"), dict(base, le=False, outcome="none")]
        else:
            outcome = "ret?"
    elif p.end == "diverge":
        outcome = "panic"
    else:
        outcome = "cont"
    return {"arm": tuple(arm), "lt": lt, "le": le, "flow_ok": flow, "outcome": outcome,
            "nextpos": nextpos}


def run(thorough=False):
    try:
        mir, secs, cached = util.get()
        cc_idx = util.struct_field_index("src/machine/machine_state.rs", "MachineState", "cc")
        regions = [("find_living_dynamic_else", r"::find_living_dynamic_else$"),
                   ("find_living_dynamic", r"::find_living_dynamic$"),
                   ("dynamic_external_of_clause_is_valid",
                    r"^dynamic_external_of_clause_is_valid$")]
        results = []
        for rname, pat in regions:
            body, head, paths = analyse(mir, pat, cc_idx)
            recs = []
            for p in paths:
                c = classify_path(p, cc_idx)
                recs.extend(c if isinstance(c, list) else [c])
            results.append((rname, recs))
    except Exception as e:  # noqa
        log("  mirsmt C09: cannot analyse (%s)" % e)
        return {"exit": EXIT_INCONCLUSIVE, "mirsmt_error": str(e)}
    queries, meta = [], []
    for rname, recs in results:
        arms = {}
        for r in recs:
            if r["lt"] is None and r["le"] is None:
                continue       # paths that do not consult the stamps (RevJmpBy, unreachable)
            arms.setdefault(r["arm"], []).append(r)
        for arm, rs in arms.items():
            # symbolic inputs of the arm: lt := birth < cc, le := Finite(cc) <= death,
            # pos := next > 0. Each path covers a cube of them and has an outcome.
            def cube(r):
                cs = []
                for nm in ("lt", "le", "nextpos"):
                    if r[nm] is not None:
                        cs.append(nm if r[nm] else "(not %s)" % nm)
                return "(and true %s)" % " ".join(cs)
            has_next = any(r["nextpos"] is not None for r in rs)
            live = "(and lt le)"
            some = "(or false %s)" % " ".join(cube(r) for r in rs if r["outcome"] == "some")
            none = "(or false %s)" % " ".join(cube(r) for r in rs if r["outcome"] == "none")
            cont = "(or false %s)" % " ".join(cube(r) for r in rs if r["outcome"] == "cont")
            bad = "(or false %s)" % " ".join(cube(r) for r in rs if r["outcome"] in ("panic", "ret?")
                                             or not r["flow_ok"])
            if rname == "find_living_dynamic":
                # dead clause -> try the next index (continue); live -> Some
                spec = "(and (= %s %s) (= %s (not %s)) (not %s) (not %s))" % (some, live, cont, live,
                                                                             none, bad)
            elif has_next:
                spec = ("(and (= %s %s) (= %s (and (not %s) nextpos)) (= %s (and (not %s) "
                        "(not nextpos))) (not %s))" % (some, live, cont, live, none, live, bad))
            else:
                spec = "(and (= %s %s) (= %s (not %s)) (not %s) (not %s))" % (some, live, none, live,
                                                                             cont, bad)
            q = ("(declare-const lt Bool)\n(declare-const le Bool)\n(declare-const nextpos Bool)\n"
                 "(assert (not %s))" % spec)
            queries.append(q)
            meta.append((rname, arm, len(rs)))
    if not queries:
        return {"exit": EXIT_INCONCLUSIVE, "mirsmt_error": "no stamp-reading arm found"}
    br = smt.check_batch(queries, thorough=thorough, getvals=[["lt", "le", "nextpos"]] * len(queries))
    res = {"evaluations": len(queries), "distinct_nontrivial": 0, "samples": [],
           "mirsmt_regions": [r for r, _ in results], "mirsmt_seconds": br["z3_s"],
           "mirsmt_assumptions": ["Death::le is the derived order (checked by the K harness "
                                  "c09_death_order)", "one step of the chain walk; the walk itself "
                                  "is induction on the chain"]}
    if br["results"] is None or (thorough and br["agree"] is False):
        res["exit"] = EXIT_INCONCLUSIVE
        return res
    viol = []
    for (rname, arm, n), r, q in zip(meta, br["results"], queries):
        if r["answer"] == "unsat":
            res["distinct_nontrivial"] += 1
        else:
            viol.append({"region": rname, "arm": arm, "model": r["model"]})
        if len(res["samples"]) < 8:
            res["samples"].append({"region": rname, "arm": [a for a in arm], "paths": n,
                                   "answer": r["answer"], "query": q.split("\n")[-1][:400]})
    log("  mirsmt C09: %d arms, %d unsat, %d violations (z3 %.2fs)" % (
        len(queries), res["distinct_nontrivial"], len(viol), br["z3_s"]))
    if viol:
        res["mirsmt_violations"] = viol
        from .. import prolog
        rp = prolog.replay_logical_update_view(viol)
        if rp["reproduced"]:
            log("VIOLATION property=C09 replay=%s" % rp["path"])
            res["exit"] = EXIT_VIOLATION
        else:
            log("  mirsmt C09: model did not reproduce on the binary (%s) -> inconclusive" %
                rp.get("why"))
            res["exit"] = EXIT_INCONCLUSIVE
    return res

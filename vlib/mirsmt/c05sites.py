"""C05 (consumer sites): every place outside the arithmetic kernels that branches on the
representation of a `Number` taken from a cell (builtins in system_calls.rs, machine_state_impl.rs,
dispatch.rs, unify.rs, ...) must treat the two integer representations alike at the branch: the
`Integer` (bignum cell) variant is handled explicitly iff the `Fixnum` variant is. The switch
targets are read from the MIR of every function; z3 decides the (propositional) rule per site from
the extracted targets; a default arm that is `unreachable!()` (internal callers that only ever pass
fixnums) is exempt. What the two arms then compute is not compared here (the replay set runs the
integer-taking builtins differentially with a literal and with the same value in a bignum cell)."""
import os
import re

from .. import smt
from ..common import EXIT_INCONCLUSIVE, EXIT_OK, EXIT_VIOLATION, REPO, log
from . import core, util

KERNEL_MODULES = ("arithmetic_ops", "arithmetic", "special_math", "forms", "rational_from_number",
                  "negated_op_needs_bracketing")


def number_variants():
    with open(os.path.join(REPO, "src/forms.rs")) as f:
        txt = f.read()
    m = re.search(r"pub enum Number \{(.*?)\}", txt, re.S)
    names = re.findall(r"^\s*(\w+)\(", m.group(1), re.M)
    return {n: i for i, n in enumerate(names)}


def is_unreachable_block(body, bb):
    ls = body.blocks.get(bb, [])
    return any("entered unreachable code" in l for l in ls) or (ls and ls[-1].strip() == "unreachable;")


def sites(mir):
    out = []
    for n in mir.index:
        if n.split("::")[0] in KERNEL_MODULES:
            continue
        b = mir.body(n)
        for bb, ls in b.blocks.items():
            for i, l in enumerate(ls):
                mm = re.match(r"\s*(_\d+) = discriminant\((.*)\);", l)
                if not mm:
                    continue
                place = mm.group(2)
                isnum = place.endswith(": forms::Number)") or place.endswith(": arithmetic::Number)")
                if not isnum:
                    root = re.match(r"^\(?\*?(_\d+)\)?$", place)
                    if root and re.search(r"^(forms|arithmetic)::Number$",
                                          str(b.decls.get(root.group(1), "")).strip()):
                        isnum = True
                if not isnum:
                    continue
                sw = [x for x in ls[i + 1:] if "switchInt(move %s)" % mm.group(1) in x]
                if not sw:
                    continue
                m2 = re.search(r"\[(.*)\]", sw[0])
                arms = {}
                for part in m2.group(1).split(","):
                    k, v = part.strip().split(": ")
                    arms[k] = v
                out.append((n, bb, arms, b))
    return out


def sign_obligation(mir):
    """Number::sign on the integer / rational arms: 0 for zero, 1 for a positive, -1 for a negative
    value, with is_positive / is_zero / is_negative of the value as Boolean inputs. dashu gives a zero
    bignum the positive sign, so is_positive does NOT exclude is_zero: the only constraints are
    zero => not negative, not (positive and negative), not zero => positive or negative.
    -> (query, note)"""
    ns = [n for n in mir.index if re.search(r"^forms::<impl at [^>]*>::sign$", n)]
    body = None
    for n in ns:
        b = mir.body(n)
        if "Number" in b.header.split("\n")[0]:
            body = b
    if body is None:
        raise core.Unsupported("Number::sign not found")
    paths = core.Executor(body, max_depth=200, max_paths=200).run("bb0")
    cubes = []
    for p in paths:
        if p.end != "return":
            continue
        lits = {}
        for c in p.conds:
            t = c[0]
            if t[0] == "app" and re.search(r"::(is_positive|is_zero|is_negative)$", t[1]):
                nm = t[1].split("::")[-1]
                lits[nm] = (c[2] != 0) if c[1] == "==" else (0 in c[2])
        if not lits:
            continue            # the float arms
        r = p.env.get("_0")
        val = None
        if r is not None and r[0] == "agg" and r[2] and r[2][0][0] == "app" and r[2][0][1].endswith("build_with"):
            a = r[2][0][2][0]
            if a[0] == "c":
                val = a[1] if a[1] < 2**63 else a[1] - 2**64
        if val is None:
            raise core.Unsupported("Number::sign: result of an integer path not understood")
        cube = "(and true %s)" % " ".join(k if v else "(not %s)" % k for k, v in sorted(lits.items()))
        cubes.append((cube, val))
    if not cubes:
        raise core.Unsupported("Number::sign: no integer path")
    res = "0"
    for cube, val in cubes:
        res = "(ite %s %d %s)" % (cube, val, res) if val >= 0 else "(ite %s (- %d) %s)" % (cube, -val, res)
    q = ("(declare-const is_positive Bool)\n(declare-const is_zero Bool)\n(declare-const is_negative Bool)\n"
         "(assert (and (=> is_zero (not is_negative)) (not (and is_positive is_negative)) "
         "(=> (not is_zero) (or is_positive is_negative))))\n"
         "(assert (not (= %s (ite is_zero 0 (ite is_negative (- 1) 1)))))" % res)
    return q, "%d integer paths" % len(cubes)


def run(thorough=False):
    try:
        mir, secs, cached = util.get()
        var = number_variants()
        ss = sites(mir)
    except Exception as e:  # noqa
        log("  mirsmt C05 sites: cannot analyse (%s)" % e)
        return {"exit": EXIT_INCONCLUSIVE, "mirsmt_error": str(e)}
    if len(ss) < 10:
        return {"exit": EXIT_INCONCLUSIVE, "mirsmt_error": "only %d Number switches found" % len(ss)}
    ki, kf = str(var["Integer"]), str(var["Fixnum"])
    queries, meta = [], []
    for n, bb, arms, body in ss:
        oth = arms.get("otherwise")
        ti, tf = arms.get(ki, oth), arms.get(kf, oth)
        exempt = oth is not None and is_unreachable_block(body, oth)
        # block numbers as bit-vectors; rule: (ti = default) <=> (tf = default), unless exempt
        def num(b):
            return "#x%08x" % (int(b[2:]) if b else 0xffffffff)
        q = ("(declare-const ti (_ BitVec 32))\n(declare-const tf (_ BitVec 32))\n(declare-const d (_ BitVec 32))\n"
             "(assert (and (= ti %s) (= tf %s) (= d %s)))\n(assert (not (or %s (= (= ti d) (= tf d)))))" % (
                 num(ti), num(tf), num(oth), "true" if exempt else "false"))
        queries.append(q)
        meta.append({"fn": n.split("::")[-1], "module": n.split("::")[0], "block": bb, "arms": arms,
                     "exempt_unreachable_default": exempt})
    try:
        sq, snote = sign_obligation(mir)
        queries.append(sq)
        meta.append({"fn": "sign", "module": "forms", "block": snote, "arms": {}, "exempt_unreachable_default": False,
                     "sign": True})
    except core.Unsupported as e:
        log("  mirsmt C05 sites: Number::sign: %s" % e)
        return {"exit": EXIT_INCONCLUSIVE, "mirsmt_error": str(e)}
    br = smt.check_batch(queries, thorough=thorough)
    res = {"evaluations": len(queries), "distinct_nontrivial": 0, "samples": [],
           "mirsmt_regions": ["every switch on a Number discriminant outside %s (%d sites)" % (
               "/".join(KERNEL_MODULES[:3]), len(ss))],
           "mirsmt_seconds": br["z3_s"]}
    if br["results"] is None:
        res["exit"] = EXIT_INCONCLUSIVE
        return res
    viol = []
    for m, r in zip(meta, br["results"]):
        if r["answer"] == "unsat":
            res["distinct_nontrivial"] += 1
        else:
            viol.append(m)
        if m.get("sign"):
            res["samples"].append({"query": "Number::sign: 0 for zero, 1 / -1 by sign, for integers and rationals in "
                                   "every representation (is_positive does not exclude zero)", "answer": r["answer"],
                                   "note": m["block"]})
        elif len(res["samples"]) < 8 or r["answer"] != "unsat":
            res["samples"].append({"query": "%s::%s %s: Integer handled explicitly <=> Fixnum handled explicitly" % (
                m["module"], m["fn"], m["block"]), "answer": r["answer"], "arms": m["arms"]})
    log("  mirsmt C05 sites: %d obligations (switches on a Number's representation outside the kernels + Number::sign), %d hold: they treat "
        "Integer and Fixnum alike, %d do not (z3 %.2fs)" % (len(queries), res["distinct_nontrivial"],
                                                            len(viol), br["z3_s"]))
    res["exit"] = EXIT_OK
    if viol:
        res["mirsmt_violations"] = [{"site": "%s::%s %s" % (m["module"], m["fn"], m["block"]), "arms": m["arms"]}
                                    for m in viol]
        from .. import prolog
        rp = prolog.replay_equal_integers(res["mirsmt_violations"])
        if rp["reproduced"]:
            log("VIOLATION property=C05 replay=%s" % rp["path"])
            res["exit"] = EXIT_VIOLATION
        else:
            for v in res["mirsmt_violations"][:4]:
                log("    differs: %s" % v)
            log("  mirsmt C05 sites: the builtin replay set answers alike for both representations (%s) "
                "-> inconclusive" % rp.get("why"))
            res["exit"] = EXIT_INCONCLUSIVE
    return res

"""C01 (M part): the arms of the integer kernels whose operands are already bignums.

Engine K cannot read bignum values behind TypedArenaPtr (DESIGN P18), so for every arm
(Fixnum|Integer) x (Fixnum|Integer) other than Fixnum x Fixnum this module checks, on the MIR of
the current tree, that the success path delegates to the dashu operator the kernel's name
prescribes, with the kernel's first operand on the left and the second on the right (order is
free for commutative operators). The value the operator returns is dashu's. Decided as a finite
table equality by z3 (like C03). Also: the flooring-modulus helper ibig_rem_floor is checked
against the definition of flooring modulus over mathematical integers (z3, bounded divisor)."""
import os
import re

from .. import smt
from ..common import EXIT_INCONCLUSIVE, EXIT_OK, EXIT_VIOLATION, REPO, log
from . import core, util
from .c05 import number_variants, rooted_in

# kernel -> (regex of the delegated call, ordered?)
SPEC = {
    "add": (r"as Add(<.*>)?>::add$", False),
    "mul": (r"as Mul(<.*>)?>::mul$", False),
    "idiv": (r"as Div(<.*>)?>::div$", True),
    "remainder": (r"as Rem(<.*>)?>::rem$", True),
    "modulus": (r"ibig_rem_floor$", True),
    "and": (r"as BitAnd(<.*>)?>::bitand$", False),
    "or": (r"as BitOr(<.*>)?>::bitor$", False),
    "xor": (r"as BitXor(<.*>)?>::bitxor$", False),
    "gcd": (r"Gcd.*::gcd$", False),
}


def kernel_body(mir, k):
    names = [n for n in mir.index if re.search(r"(^|::)%s$" % k, n) and
             (n.startswith("arithmetic_ops::") or n == k)]
    names = [n for n in names if "closure" not in n]
    if len(names) != 1:
        raise core.Unsupported("kernel %s: %s" % (k, names[:4]))
    return mir.body(names[0])


def analyse_kernel(mir, k, variants):
    body = kernel_body(mir, k)
    paths = core.Executor(body, max_depth=300, max_paths=3000).run("bb0")
    pat, ordered = SPEC[k]
    arms = {}
    inv = {v: i for i, v in variants.items()}
    for p in paths:
        if p.end != "return":
            continue
        va = vb = None
        for t, op, v in p.conds:
            if t[0] == "disc" and op == "==":
                if t[1] == ("s", "_1"):
                    va = variants.get(v)
                elif t[1] == ("s", "_2"):
                    vb = variants.get(v)
        if va not in ("Fixnum", "Integer") or vb not in ("Fixnum", "Integer"):
            continue
        if va == "Fixnum" and vb == "Fixnum":
            continue
        r = p.env.get("_0")
        if r is not None and r[0] == "agg" and r[1].endswith("::Err"):
            continue                                  # zero divisor etc.
        if core.calls(p, r"zero_divisor_eval_error$|numerical_type_error$|undefined_eval_error$"):
            continue
        dc = core.calls(p, pat)
        ok = False
        detail = "no delegated call"
        for e in dc:
            args = e[2]
            if len(args) < 2:
                continue
            r1 = [rooted_in(a, lambda x: x == ("s", "_1"), p.env) for a in args[:2]]
            r2 = [rooted_in(a, lambda x: x == ("s", "_2"), p.env) for a in args[:2]]
            straight = r1[0] and r2[1] and not r1[1] and not r2[0]
            swapped = r2[0] and r1[1] and not r2[1] and not r1[0]
            if straight or (swapped and not ordered):
                ok = True
            detail = "straight" if straight else ("swapped" if swapped else "operands not traced")
        arms.setdefault((va, vb), []).append((ok, detail))
    return arms


# ---------------------------------------------------------------- ibig_rem_floor
def analyse_rem_floor(mir):
    names = [n for n in mir.index if n.endswith("ibig_rem_floor")]
    if len(names) != 1:
        raise core.Unsupported("ibig_rem_floor: %s" % names)
    body = mir.body(names[0])
    paths = core.Executor(body, max_depth=200).run("bb0")
    recs = []
    for p in paths:
        if p.end != "return":
            continue
        neg = zero = None
        for t, op, v in p.conds:
            ra = util.root_app(t)
            if ra is None:
                continue
            truth = (v != 0) if op == "==" else (0 in v)
            if ra[1].endswith("is_negative"):
                neg = truth
            elif ra[1].endswith("is_zero"):
                zero = truth
        adds = core.calls(p, r"as Add(<.*>)?>::add$")
        r = util.root_app(p.env.get("_0"))
        plus_n2 = bool(adds) and r is not None and r[3] == adds[-1][3][3]
        if plus_n2:
            a = adds[-1][2]
            plus_n2 = any(rooted_in(x, lambda y: y == ("s", "_2"), p.env) for x in a)
        # the residue must be n1 reduced modulo |n2|
        red = core.calls(p, r"ConstDivisor>::reduce$")
        newc = core.calls(p, r"ConstDivisor::new$")
        flow = bool(red and newc) and \
            any(rooted_in(x, lambda y: y == ("s", "_1"), p.env) for x in red[0][2]) and \
            any(rooted_in(x, lambda y: y == ("s", "_2"), p.env) for x in newc[0][2]) and \
            bool(core.calls(p, r"unsigned_abs$"))
        recs.append({"neg": neg, "zero": zero, "plus_n2": plus_n2, "flow": flow})
    return recs


DIVISORS = [1, -1, 2, -2, 3, -3, 5, -5, 7, -7, 8, -8, 64, -64, 1000003, -1000003]


def rem_floor_query(recs):
    """exists n1, n2 in a fixed set of divisors of both signs: the value the path structure computes is not the flooring
    modulus (the unique r with r == n1 (mod n2), 0 <= r < n2 or n2 < r <= 0)."""
    branches = []
    for r in recs:
        g = []
        if r["neg"] is not None:
            g.append("(< n2 0)" if r["neg"] else "(>= n2 0)")
        if r["zero"] is not None:
            g.append("(= res 0)" if r["zero"] else "(not (= res 0))")
        val = "(+ res n2)" if r["plus_n2"] else "res"
        branches.append("(and true %s (= out %s))" % (" ".join(g), val))
    return ("(declare-const n1 Int)\n(declare-const n2 Int)\n(declare-const out Int)\n"
            "(assert (or %s))\n"
            "(define-fun res () Int (mod n1 (abs n2)))\n" % " ".join(
                "(= n2 %s)" % (d if d > 0 else "(- %d)" % -d) for d in DIVISORS) +
            "(assert (or false %s))\n"
            "(assert (not (and (= (mod (- n1 out) (abs n2)) 0)\n"
            "                  (=> (> n2 0) (and (<= 0 out) (< out n2)))\n"
            "                  (=> (< n2 0) (and (< n2 out) (<= out 0))))))" % " ".join(branches))


def run(thorough=False):
    try:
        mir, secs, cached = util.get()
        variants = number_variants()
        table = {k: analyse_kernel(mir, k, variants) for k in SPEC}
        rf = analyse_rem_floor(mir)
    except Exception as e:  # noqa
        log("  mirsmt C01: cannot analyse (%s)" % e)
        return {"exit": EXIT_INCONCLUSIVE, "mirsmt_error": str(e)}
    rows, bad = [], []
    want_arms = [("Fixnum", "Integer"), ("Integer", "Fixnum"), ("Integer", "Integer")]
    for k, arms in table.items():
        for arm in want_arms:
            rs = arms.get(arm)
            ok = bool(rs) and all(x[0] for x in rs)
            rows.append((k, arm, ok, rs))
            if not ok:
                bad.append({"kernel": k, "arm": "%s x %s" % arm,
                            "found": [x[1] for x in rs] if rs else "no success path"})
    # finite table decided by z3
    a = b = "0"
    for i, (k, arm, ok, rs) in enumerate(rows):
        a = "(ite (= f %d) %d %s)" % (i, 1 if ok else 0, a)
        b = "(ite (= f %d) 1 %s)" % (i, b)
    q1 = "(declare-const f Int)\n(assert (and (>= f 0) (< f %d)))\n(assert (not (= %s %s)))" % (
        len(rows), a, b)
    q2 = rem_floor_query(rf)
    br = smt.check_batch([q1, q2], thorough=thorough, getvals=[["f"], ["n1", "n2", "out"]],
                         timeout=120)
    res = {"evaluations": len(rows) + 1, "distinct_nontrivial": sum(1 for r in rows if r[2]),
           "samples": [{"kernel": k, "arm": "%s x %s" % arm, "delegates": ok,
                        "operands": [x[1] for x in rs] if rs else None} for k, arm, ok, rs in rows[:8]],
           "mirsmt_regions": ["arithmetic_ops::{%s} bignum arms" % ",".join(SPEC),
                              "modulus::ibig_rem_floor"], "mirsmt_seconds": br["z3_s"],
           "mirsmt_assumptions": ["dashu operators compute the mathematical operation (trusted)",
                                  "ibig_rem_floor: ConstDivisor::reduce(n1).residue() is n1 mod |n2| "
                                  "in [0,|n2|); divisor ranges over 16 fixed values of both signs in the z3 query, dividend unbounded"]}
    if br["results"] is None:
        res["exit"] = EXIT_INCONCLUSIVE
        return res
    a1, a2 = br["results"][0]["answer"], br["results"][1]["answer"]
    rf_flow = bool(rf) and all(r["flow"] for r in rf)
    log("  mirsmt C01: %d bignum arms, %d delegate correctly (query %s); ibig_rem_floor vs flooring "
        "modulus: %s (flow %s) (z3 %.2fs)" % (len(rows), res["distinct_nontrivial"], a1, a2, rf_flow,
                                              br["z3_s"]))
    if a2 == "unsat" and rf_flow:
        res["distinct_nontrivial"] += 1
    viol = list(bad)
    if a2 == "sat" or (a2 == "unsat" and not rf_flow):
        viol.append({"kernel": "modulus", "arm": "ibig_rem_floor", "model": br["results"][1]["model"],
                     "flow_ok": rf_flow})
    if a2 not in ("sat", "unsat") or (a1 == "sat") != bool(bad):
        res["exit"] = EXIT_INCONCLUSIVE
        return res
    if viol:
        res["mirsmt_violations"] = viol
        from .. import prolog
        rp = prolog.replay_bignum_arms(viol)
        if rp["reproduced"]:
            log("VIOLATION property=C01 replay=%s" % rp["path"])
            res["exit"] = EXIT_VIOLATION
        else:
            for v in viol[:5]:
                log("    fails: %s" % v)
            log("  mirsmt C01: model did not reproduce on the binary (%s) -> inconclusive" %
                rp.get("why"))
            res["exit"] = EXIT_INCONCLUSIVE
    return res

"""C09, the stamping side of the logical update view: where birth and death stamps come from and how the
global clock moves, composed by the solver with the visibility predicate `birth < cc /\\ Finite(cc) <= death`
that c09.py decides for the readers.

Read off every path of the functions of the current tree (MIR):
  A  Loader::incremental_compile_clause never stores the clock; every CodeGenSettings it builds has
     global_clock_tick = Some(<the clock as read there>) (only under is_dynamic) or None; the clock handed to
     append_compiled_clause / prepend_compiled_clause is the clock as read;
  B  compile_assert's closure: no clock store before incremental_compile_clause; after it succeeded exactly one
     store clock := clock + 1 (before the '$clause' bookkeeping is compiled);
  C  Loader::retract_dynamic_clause stores Death::Finite(<the clock as read>) into field 1 of the clause's
     DynamicElse / DynamicInternalElse and never stores the clock;
  D  retract_clause's closure: no clock store before retract_dynamic_clause, exactly one clock := clock + 1 after;
  E  codegen: every DynamicElse / DynamicInternalElse the code generator builds is born (tick, Death::Infinity).
Decided by z3 over 64-bit words from the extracted terms (g = the clock at the update, g < 2^64 - 1):
  assert : a call that captured cc <= g does not see the clause, a call that captures cc >= clock' does
           (as long as it is not retracted);
  retract: a call that captured cc <= g still sees the clause (if it was visible to it at all), a call that
           captures cc >= clock' does not."""
import re

from .. import smt
from ..common import EXIT_INCONCLUSIVE, EXIT_OK, EXIT_VIOLATION, log
from . import core, util
from .smtgen import Encoder


def _paths(mir, suffix, max_paths=20000):
    ns = [n for n in mir.index if n.endswith(suffix)]
    if len(ns) != 1:
        raise core.Unsupported("%s: %d bodies" % (suffix, len(ns)))
    body = mir.body(ns[0])
    heads = util.back_edge_targets(body)
    out = []
    for entry in ["bb0"] + list(heads):
        out += core.Executor(body, stop_blocks=tuple(heads), max_depth=900, max_paths=max_paths).run(entry)
    return out


def _is_clock_read(t, gidx):
    """<machine_st(..)>*.<gidx>"""
    return t[0] == "proj" and t[2].endswith(".%d" % gidx) and "machine_st" in util.term_str(t)


def _clock_stores(p, gidx):
    return [e for e in p.events if e[0] == "store" and e[1].endswith(".%d" % gidx)]


def _incr_of(t, gidx):
    """t = AddWithOverflow(<clock read>, 1).0 -> the clock read"""
    if t[0] == "proj" and t[2] == ".0" and t[1][0] == "op" and t[1][1] == "AddWithOverflow" and \
            t[1][2][1] == ("c", 1) and _is_clock_read(t[1][2][0], gidx):
        return t[1][2][0]
    return None


def _subst_clock(t, gidx):
    if not isinstance(t, tuple):
        return t
    if _is_clock_read(t, gidx):
        return ("s", "g")
    if t[0] in ("op", "agg"):
        return (t[0], t[1], tuple(_subst_clock(a, gidx) for a in t[2]))
    if t[0] == "proj":
        return ("proj", _subst_clock(t[1], gidx), t[2])
    return t


def _as_fn_of_clock(t, gidx):
    """SMT term over g for a value computed from the clock read only, else None"""
    u = _subst_clock(t, gidx)
    enc = Encoder()
    txt = enc.bv(u)
    if any(k != ("s", "g") for k in enc.order):
        return None
    return txt.replace(enc.leaf(("s", "g")), "g") if enc.order else txt


def update_closure(mir, suffix, callee, gidx, after_terms=None):
    """(ok, why, n_paths_with_call, after_term_kind) for B / D"""
    ps = _paths(mir, suffix)
    n, ok, why = 0, True, ""
    for p in ps:
        idx = [i for i, e in enumerate(p.events) if e[0] == "call" and e[1].endswith("::" + callee)]
        st = [i for i, e in enumerate(p.events) if e[0] == "store" and e[1].endswith(".%d" % gidx)]
        if not idx:
            if st:
                ok, why = False, "the clock is stored on a path that never reaches %s" % callee
            continue
        n += 1
        if any(i < idx[0] for i in st):
            ok, why = False, "the clock is stored before %s" % callee
            continue
        # did the callee's result take the error exit ('?') before anything else happened?
        res = p.events[idx[0]][3]
        early = False
        for c in p.conds:
            if c[0][0] == "disc" and c[0][1][0] == "app" and c[0][1][1].endswith("::branch") and \
                    c[0][1][2] and c[0][1][2][0] == res and c[1] == "==" and c[2] == 1:
                early = True
        if early:
            if st:
                ok, why = False, "the clock moves although %s failed" % callee
            continue
        if p.end == "diverge" and not st:
            continue            # a panic inside / right after the callee
        if len(st) != 1:
            ok, why = False, "after %s the clock is stored %d times" % (callee, len(st))
        elif after_terms is not None:
            after_terms.add(_as_fn_of_clock(p.events[st[0]][2], gidx))
    return ok and n > 0, why, n


def crate_wide_stores(mir, cc_idx, gidx):
    """every assignment to MachineState.cc / .global_clock in the whole dump, classified by its right-hand side:
    cc := <the clock as read> (capture), cc := <value> as usize (restore from a saved cell), clock := clock + 1;
    anything else is reported."""
    caps = rest = incs = 0
    bad = []
    fn = ""
    L = mir.lines
    pat_cc = re.compile(r"^\s*\(.*\.%d: usize\) = (.*);$" % cc_idx)
    pat_g = re.compile(r"^\s*\(.*\.%d: usize\) = (.*);$" % gidx)

    def definition(i, local):
        for j in range(i - 1, max(i - 40, 0), -1):
            if L[j].startswith("fn "):
                break
            m = re.match(r"\s*%s = (.*);$" % re.escape(local), L[j])
            if m:
                return m.group(1)
        return None
    for i, l in enumerate(L):
        if l.startswith("fn "):
            fn = l[3:100]
            continue
        if "MachineState" not in l and "(*_1)." not in l and "(*_" not in l:
            continue
        m = pat_cc.match(l)
        if m and ("MachineState).%d" % cc_idx in l or re.search(r"machine_state(_impl)?::|dispatch::", fn)) and \
                "machine_state::MachineState {" not in l:
            rhs = m.group(1)
            if re.match(r"(move|copy) _\d+ as usize \(IntToInt\)$", rhs):
                rest += 1
            else:
                m2 = re.match(r"(?:move|copy) (_\d+)$", rhs)
                d = definition(i, m2.group(1)) if m2 else None
                if d and re.match(r"copy \(.*\.%d: usize\)$" % gidx, d):
                    caps += 1
                elif "MachineState).%d" % cc_idx in l:
                    bad.append("cc := %s in %s" % (rhs if not d else d, fn[:60]))
        m = pat_g.match(l)
        if m and ("MachineState).%d" % gidx in l or "loader" in fn or "compile" in fn):
            rhs = m.group(1)
            m2 = re.match(r"move \((_\d+)\.0: usize\)$", rhs)
            d = definition(i, m2.group(1)) if m2 else None
            if d and re.match(r"AddWithOverflow\(copy \(.*\.%d: usize\), const 1_usize\)$" % gidx, d):
                incs += 1
            elif re.search(r"\.%d: usize\) = " % gidx, l) and ("machine_st" in "".join(L[max(i - 6, 0):i]) or "MachineState)" in l):
                bad.append("global_clock := %s in %s" % (rhs if not d else d, fn[:60]))
    return caps, rest, incs, bad


def run(thorough=False):
    structural, queries, meta = [], [], []
    try:
        mir, secs, cached = util.get()
        gidx = util.struct_field_index("src/machine/machine_state.rs", "MachineState", "global_clock")
        # A
        ps = _paths(mir, "::incremental_compile_clause")
        okA, whyA, n_set, n_some = True, "", 0, 0
        births, afterA, deaths, afterR = set(), set(), set(), set()
        for p in ps:
            if _clock_stores(p, gidx):
                okA, whyA = False, "incremental_compile_clause stores the clock"
            for e in p.events:
                if e[0] == "call" and re.search(r"::(append|prepend)_compiled_clause$", e[1]):
                    if not _is_clock_read(e[2][-1], gidx):
                        okA, whyA = False, "%s gets %s for the clock" % (e[1].split("::")[-1], util.term_str(e[2][-1])[:60])
            # CodeGenSettings aggregates on this path
            for k, v in p.env.items():
                if isinstance(v, tuple) and v and v[0] == "agg" and v[1].endswith("CodeGenSettings"):
                    n_set += 1
                    tick = v[2][0]
                    s = util.term_str(tick)
                    if tick[0] == "agg" and "Some" in tick[1]:
                        n_some += 1
                        births.add(_as_fn_of_clock(tick[2][0], gidx))
                    elif not (tick[0] == "agg" and "None" in tick[1]):
                        okA, whyA = False, "global_clock_tick = %s" % s[:80]
        structural.append({"obligation": "assert: the clause being compiled gets global_clock_tick = Some(f(clock)) or None "
                           "(%d settings on %d paths), the clock is not moved while it is compiled and is handed "
                           "unchanged to append/prepend_compiled_clause" % (n_set, len(ps)),
                           "ok": (okA if n_some > 0 else None), "why": whyA})
        # B, D
        okB, whyB, nB = update_closure(mir, "::compile_assert::{closure#1}", "incremental_compile_clause", gidx, afterA)
        structural.append({"obligation": "assert: the clock is stored exactly once after the clause was added, never "
                           "before and not when adding failed (%d paths)" % nB, "ok": okB, "why": whyB})
        okD, whyD, nD = update_closure(mir, "::retract_clause::{closure#0}", "retract_dynamic_clause", gidx, afterR)
        structural.append({"obligation": "retract: the clock is stored exactly once after the clause was stamped dead, "
                           "never before (%d paths)" % nD, "ok": okD, "why": whyD})
        # C
        ps = _paths(mir, "::retract_dynamic_clause")
        okC, whyC, nC = True, "", 0
        for p in ps:
            if _clock_stores(p, gidx):
                okC, whyC = False, "retract_dynamic_clause stores the clock"
            ds = [e for e in p.events if e[0] == "store" and re.search(r"as Dynamic(Internal)?Else\)\.\d+$", e[1])]
            if p.end == "return":
                if len(ds) != 1:
                    okC, whyC = False, "%d stamp stores on a returning path" % len(ds)
                    continue
                nC += 1
                e = ds[0]
                v = e[2]
                if not (e[1].endswith(".1") and v[0] == "agg" and v[1].endswith("Death::Finite")):
                    okC, whyC = False, "stores %s into %s" % (util.term_str(v)[:60], e[1])
                else:
                    deaths.add(_as_fn_of_clock(v[2][0], gidx))
        structural.append({"obligation": "retract: the clause's death field becomes Finite(f(clock)), exactly one stamp "
                           "store on each of the %d returning paths" % nC, "ok": okC and nC > 0, "why": whyC})
        # E: code generator
        nE, okE, whyE = 0, True, ""
        for name in mir.index:
            if not name.startswith("codegen::") or "{closure" in name:
                continue
            s, e_ = mir.index[name][0]
            txt = mir.lines[s:e_]
            if not any("Instruction::Dynamic" in l and "Else(" in l for l in txt):
                continue
            body = mir.body(name)
            heads = util.back_edge_targets(body)
            for entry in ["bb0"] + list(heads):
                try:
                    pps = core.Executor(body, stop_blocks=tuple(heads), max_depth=400, max_paths=3000).run(entry)
                except core.Unsupported:
                    raise
                for p in pps:
                    for k, v in p.env.items():
                        if isinstance(v, tuple) and v and v[0] == "agg" and re.search(r"Instruction::Dynamic(Internal)?Else$", v[1]):
                            nE += 1
                            b, d = v[2][0], v[2][1]
                            if not (d[0] == "agg" and d[1].endswith("Death::Infinity")):
                                okE, whyE = False, "%s: born with death %s" % (name[-40:], util.term_str(d)[:40])
                            if "global_clock_tick" not in str(body.debug) and "global_clock_time" not in str(body.debug):
                                okE, whyE = False, "%s builds a dynamic clause head without a clock tick" % name[-40:]
                            elif not re.search(r"as Some\b|Some\)", util.term_str(b)):
                                okE, whyE = False, "%s: birth is %s" % (name[-40:], util.term_str(b)[:60])
        structural.append({"obligation": "code generator: every dynamic clause head it builds is born (the settings' "
                           "tick, Death::Infinity) (%d aggregates)" % nE, "ok": (okE if nE > 0 else None), "why": whyE})
        cc_idx = util.struct_field_index("src/machine/machine_state.rs", "MachineState", "cc")
        caps, rest, incs, badw = crate_wide_stores(mir, cc_idx, gidx)
        structural.append({"obligation": "crate-wide: every store to cc is the clock as read (%d captures) or a saved "
                           "generation read back (%d restores); every store to the clock is clock := clock + 1 (%d), so "
                           "a later call captures a generation >= clock'" % (caps, rest, incs),
                           "ok": (not badw) if (caps and incs >= 2) else None, "why": "; ".join(badw[:3])})
        # composition (z3): g = clock at the update; birth = g (A), clock' = g + 1 (B); death = Finite(g) (C), clock' (D)
        hdr = ("(declare-const g (_ BitVec 64))\n(declare-const cc (_ BitVec 64))\n(declare-const birth0 (_ BitVec 64))\n"
               "(declare-const dinf Bool)\n(declare-const d (_ BitVec 64))\n"
               "(define-fun le_death ((c (_ BitVec 64)) (inf Bool) (dd (_ BitVec 64))) Bool (or inf (bvule c dd)))\n"
               "(define-fun vis ((b (_ BitVec 64)) (c (_ BitVec 64)) (inf Bool) (dd (_ BitVec 64))) Bool "
               "(and (bvult b c) (le_death c inf dd)))\n"
               "(assert (bvult g #xffffffffffffffff))\n")
        for nm, ts in (("the birth stamp", births), ("the clock after assert", afterA), ("the death stamp", deaths),
                       ("the clock after retract", afterR)):
            if None in ts or not ts:
                structural.append({"obligation": "%s is a function of the clock at the update" % nm, "ok": None,
                                   "why": str(sorted(str(t) for t in ts))})
        if okA and okB:
            for birth in sorted(t for t in births if t):
                for after in sorted(t for t in afterA if t):
                    queries.append(hdr + "(assert (and (bvule cc g) (vis %s cc true d)))" % birth)
                    meta.append({"obligation": "assert at clock g (birth %s): no call that captured its generation before "
                                 "(cc <= g) sees the new clause" % birth})
                    queries.append(hdr + "(assert (and (bvuge cc %s) (not (vis %s cc true d))))" % (after, birth))
                    meta.append({"obligation": "assert at clock g (birth %s, clock' %s): every call that captures its "
                                 "generation afterwards (cc >= clock') sees it" % (birth, after)})
                    queries.append(hdr + "(assert (not (bvugt %s g)))" % after)
                    meta.append({"obligation": "assert at clock g: the clock moves forward (clock' %s > g)" % after})
        if okC and okD:
            for dth in sorted(t for t in deaths if t):
                for after in sorted(t for t in afterR if t):
                    queries.append(hdr + "(assert (and (bvule cc g) (vis birth0 cc true d) (not (vis birth0 cc false %s))))" % dth)
                    meta.append({"obligation": "retract at clock g (death Finite(%s)): a call that captured cc <= g and saw "
                                 "the clause still sees it" % dth})
                    queries.append(hdr + "(assert (and (bvuge cc %s) (vis birth0 cc false %s)))" % (after, dth))
                    meta.append({"obligation": "retract at clock g (death Finite(%s), clock' %s): no call that captures its "
                                 "generation afterwards sees the clause" % (dth, after)})
    except Exception as e:  # noqa
        log("  mirsmt C09 stamps: cannot analyse (%s)" % e)
        return {"exit": EXIT_INCONCLUSIVE, "mirsmt_error": str(e)}
    res = {"evaluations": len(queries) + len(structural), "distinct_nontrivial": 0, "samples": [],
           "mirsmt_regions": ["Loader::incremental_compile_clause", "compile_assert::{closure#1}",
                              "retract_clause::{closure#0}", "Loader::retract_dynamic_clause",
                              "codegen (every function building a DynamicElse / DynamicInternalElse)"],
           "mirsmt_seconds": 0.0}
    viol, unknown = [], []
    if queries:
        br = smt.check_batch(queries, thorough=thorough)
        res["mirsmt_seconds"] = br["z3_s"]
        if br["results"] is None or (thorough and br["agree"] is False):
            res["exit"] = EXIT_INCONCLUSIVE
            return res
        for m, r in zip(meta, br["results"]):
            if r["answer"] == "unsat":
                res["distinct_nontrivial"] += 1
            elif r["answer"] == "sat":
                viol.append({**m, "answer": "sat"})
            else:
                unknown.append(m)
            res["samples"].append({"query": m["obligation"], "answer": r["answer"]})
    for st in structural:
        if st["ok"] is True:
            res["distinct_nontrivial"] += 1
        elif st["ok"] is False:
            viol.append({"region": "stamping", "problem": st["obligation"] + ": " + st.get("why", "")})
        else:
            unknown.append(st)
        res["samples"].append({"query": st["obligation"], "answer": {True: "holds", False: "fails", None: "not understood"}[st["ok"]],
                               "note": st.get("why", "")})
    log("  mirsmt C09 stamps: %d obligations (%d solver queries), %d hold, %d violated, %d not understood" % (
        len(queries) + len(structural), len(queries), res["distinct_nontrivial"], len(viol), len(unknown)))
    res["exit"] = EXIT_OK
    if viol:
        res["mirsmt_violations"] = viol
        from .. import prolog
        rp = prolog.replay_logical_update_view(viol)
        if rp["reproduced"]:
            log("VIOLATION property=C09 replay=%s" % rp["path"])
            res["exit"] = EXIT_VIOLATION
        else:
            for v in viol[:4]:
                log("    fails: %s" % v)
            log("  mirsmt C09 stamps: the replay answers as specified (%s) -> inconclusive" % rp.get("why"))
            res["exit"] = EXIT_INCONCLUSIVE
    elif unknown:
        res["mirsmt_not_understood"] = unknown
        for u in unknown[:4]:
            log("    not understood: %s" % u)
        res["exit"] = EXIT_INCONCLUSIVE
    return res

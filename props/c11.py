"""C11 Backtracking restores the pre-goal state: conditional-trailing rule (engine M)."""
from vlib import mprop
from vlib.mirsmt import c11

ENCODED = ["MachineState::trail (TrailRef::Ref arms: HeapCell, StackCell, AttrVar)",
           "Machine::unwind_trail (TrailedHeapVar, TrailedStackVar, TrailedAttrVar arms)",
           "MachineState::bind, MachineState::bind_attr_var (every cell store is trailed)",
           "every function that pushes TrailEntry values (tr advances by the number pushed)",
           "every system_calls.rs function that calls trail() (found from the MIR; now "
           "delete_all_attributes_from_var, delete_from_attributed_variable_list, "
           "put_to_attributed_variable_list, fetch_global_var, store_backtrackable_global_var): "
           "each heap-cell / global-slot store has a trail entry of the required kind naming the "
           "same location",
           "every function that pushes TrailEntry values itself (get_continuation_chunk's closure): a stack "
           "cell below b is never overwritten without an entry (z3 over loc, b and the path conditions)"]
ASSUME = ["hb / b are the heap top / choice point recorded by the newest choice point (their "
          "maintenance by try/retry/trust is outside)",
          "sufficiency: h older than the newest choice point => an entry of the cell's kind with "
          "value h is pushed; trailing more is not an alarm",
          "modular-bitfield accessors (get_value, get_tag, build_with) are uninterpreted",
          "builtin sites: a store followed by a resource-error return (allocation failure between the "
          "store and its trail call, as in put_to_attributed_variable_list) is not demanded to be "
          "trailed - observation recorded in DESIGN 10.4, not demonstrable without fault injection"]
BOUNDS = "every h, hb, b as 64-bit words; acyclic regions (one loop iteration of unwind_trail)"
OUTSIDE = ("restoration of hb/b/tr by choice points, the unwinding arms for attribute-list links and "
           "blackboard entries, stores that bypass trail() altogether in functions that never call it, "
           "callers of bind, and all Prolog-level constructs named in the statement")


def run(tier):
    return mprop.run("C11", tier, [("trail", c11.run)], ASSUME, ENCODED, BOUNDS, OUTSIDE)

"""C11 Backtracking restores the pre-goal state: conditional-trailing rule (engine M)."""
from vlib import mprop
from vlib.mirsmt import c11

ENCODED = ["MachineState::trail (TrailRef::Ref arms: HeapCell, StackCell, AttrVar)",
           "Machine::unwind_trail (TrailedHeapVar, TrailedStackVar, TrailedAttrVar arms)",
           "MachineState::bind, MachineState::bind_attr_var (every cell store is trailed)"]
ASSUME = ["hb / b are the heap top / choice point recorded by the newest choice point (their "
          "maintenance by try/retry/trust is outside)",
          "sufficiency: h older than the newest choice point => an entry of the cell's kind with "
          "value h is pushed; trailing more is not an alarm",
          "modular-bitfield accessors (get_value, get_tag, build_with) are uninterpreted"]
BOUNDS = "every h, hb, b as 64-bit words; acyclic regions (one loop iteration of unwind_trail)"
OUTSIDE = ("restoration of hb/b/tr by choice points, attribute-list links, bb_b_put entries, "
           "callers of bind, and all Prolog-level constructs named in the statement")


def run(tier):
    return mprop.run("C11", tier, [("trail", c11.run)], ASSUME, ENCODED, BOUNDS, OUTSIDE)

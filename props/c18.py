"""C18 Text decoding does not depend on how input arrives: CharReader one-step (engine K)."""
import os
import sys
from vlib.kani import Harness
from vlib import kprop
from vlib.common import seed

sys.path.insert(0, os.path.join(os.path.dirname(os.path.dirname(os.path.abspath(__file__))), "tools"))
import gen_c18  # noqa: E402

SRC = "src/parser/char_reader.rs"
MOD = "char_reader_c18"
Q = ("quick", "thorough")
T = ("thorough",)
S7 = "CharReader::read_chunk -> same body with an 8-byte stack buffer"
S9 = "char::len_utf8 -> the constant of the harness's length class (character assumed in that class)"

# quick core: every boundary named in DESIGN (compaction branch buf.len in 5..7 with pos on both
# sides of 4, empty buffer, exhausted buffer, EOF with an incomplete remainder)
CORE = {(5, 2, 1), (5, 2, 0), (1, 0, 0), (5, 5, 3), (6, 5, 2), (0, 0, 0), (0, 0, 3), (4, 1, 0),
        (7, 3, 0), (8, 8, 2), (3, 0, 1)}


def harnesses():
    hs = []
    trip = gen_c18.triples()
    extra = set()
    rest = [t for t in trip if t not in CORE]
    s = seed()
    # VERIF_SEED adds 2 further lattice points to the quick tier
    for i in range(2):
        extra.add(rest[(s * 7919 + i * 104729) % len(rest)])
    for bl, pos, cl in trip:
        quick = (bl, pos, cl) in CORE or (bl, pos, cl) in extra
        hs.append(Harness(SRC, MOD, "c18_peek_%d_%d_%d" % (bl, pos, cl), cost=70,
                          timeout=1200, tiers=Q if quick else T,
                          desc="peek_char from state (buf.len=%d, pos=%d), next read delivers %d "
                               "byte(s) then EOF: result = RFC 3629 decoding of the unread bytes ++ "
                               "chunk; nothing consumed; no panic" % (bl, pos, cl),
                          bounds="the 4 bytes at the read position symbolic", stubs=(S7,),
                          covers_required=False))
    for bl, pos in gen_c18.putbacks():
        for cls in (1, 2, 3, 4):
            quick = (bl, pos, cls) in {(0, 0, 2), (5, 2, 3), (5, 2, 1), (6, 6, 4), (5, 3, 4)}
            hs.append(Harness(SRC, MOD, "c18_putback_%d_%d_c%d" % (bl, pos, cls), cost=60, timeout=1200,
                              tiers=Q if quick else T,
                              desc="put_back_char(any %d-byte char) from (buf.len=%d,pos=%d) then peek "
                                   "returns it; older unread bytes follow" % (cls, bl, pos),
                              bounds="every scalar value of that UTF-8 length", stubs=(S7, S9),
                              covers_required=False))
    hs.append(Harness(SRC, MOD, "c18_read_char_advances", cost=60, timeout=1200,
                      desc="read_char consumes exactly the decoded char", bounds="buf.len=6,pos=1",
                      stubs=(S7,), covers_required=False))
    return hs


ENCODED = ["CharReader::peek_char", "CharReader::read_char", "CharReader::refresh_buffer",
           "CharReader::put_back_char", "CharReader::consume", "CharReader::buffer",
           "peek_char::bad_bytes_error", "core::str::from_utf8 (real)", "SmallVec push/drain/"
           "extend_from_slice/insert_from_slice (real)"]
ASSUME = [
    "S7: read_chunk's 8 KiB stack buffer replaced by 8 bytes (identical behaviour for <= 8 bytes "
    "per read)",
    "the reader state (buf, pos) after any history is the pre-state; one further read delivers "
    "0..4 bytes, then end of file",
    "sizes (buf.len, pos, chunk length) are enumerated constants; the up to 4 bytes that can belong "
    "to the character at the read position (unread bytes first, then chunk bytes) are symbolic, "
    "already consumed bytes and bytes further on are concrete ASCII",
]
BOUNDS = ("lattice buf.len 0..8 x pos 0..buf.len x chunk 0..4 = 225 states (thorough: all; quick: "
          "11 core states around the compaction branch and EOF + 2 chosen by VERIF_SEED); "
          "put_back from 28 states x 4 UTF-8 length classes (quick 5); unwind 14")
OUTSIDE = ("unread remainders longer than 8 bytes; more than one further read; "
           "InputChannelStream/socket plumbing; Read::read/read_exact/read_vectored paths")


def run(tier):
    return kprop.run("C18", harnesses(), tier, ASSUME, ENCODED, BOUNDS, OUTSIDE)

"""C14 Sorting builtins: the Rust kernels of sort/2 and keysort/2 (engine M)."""
from vlib import mprop
from vlib.mirsmt import c14

ENCODED = ["MachineState::sort", "MachineState::keysort", "their comparator / dedup / map closures",
           "MachineState::try_from_partial_string (the list reader's string arm)",
           "(the order itself: C13)"]
ASSUME = ["std's slice::sort_by is stable, sort_unstable_by sorts, Vec::dedup_by removes b when the closure "
          "says same(a, b) for neighbours - their documented contracts",
          "compare_term_test is the standard order (C13 decides its folding and the pair iterator)"]
BOUNDS = "every path of the two functions and of their closures; no data bound (the facts are about calls)"
OUTSIDE = ("the library predicates named in the statement (lists, ordsets, assoc, pairs: Prolog source run by "
           "the WAM), predsort/msort (Prolog), check_sort_errors / check_keysort_errors (cycle detection over "
           "the heap), the values std's sort produces")


def run(tier):
    return mprop.run("C14", tier, [("kernels", c14.run)], ASSUME, ENCODED, BOUNDS, OUTSIDE)

"""C10 Unification computes most general unifiers: one step of the worklist (engine M)."""
from vlib import kprop
from vlib.kani import Harness

ENCODED = ["Unifier::unify_atom", "Unifier::unify_char", "Unifier::unify_structure", "Unifier::unify_list",
           "Unifier::unify_partial_string", "Unifier::unify_f64", "Unifier::unify_internal (loop body: "
           "dispatch on the first cell's tag, tabu-list hits)", "Heap::last_str_char_and_tail (K: the "
           "string stepping used by partial_string_to_pdl)", "(number kernels: C05; bind/trail: C11)",
           "unify::bind_with_occurs_check (all paths, the traversal as one iteration from its head): untraversed "
           "binding only for stack variables / constants, a hit fails without binding",
           "dispatch.rs get_*_instr / unify_*_instr: direct binds only of cells built on the spot, machine values "
           "through occurs_check.bind"]
ASSUME = ["cells are dereferenced and stored before a kernel sees them (unify_internal does so; checked "
          "as part of the routing obligation only through the operands handed on)",
          "no Str cell carries './2' (lists are Lis / PStrLoc cells: parser Term::Cons, functor/3): the "
          "arms of unify_structure x Lis and unify_list x Str that require it are unreachable, their "
          "pairing (which is wrong in unify_structure x Lis: it pushes (s1+1+i, l2+1+i)) is not demanded",
          "Atom's PartialEq::eq, get_name_and_arity, build_with are uninterpreted; calls do not change "
          "what the region reads (frame assumption, DESIGN 10.2)"]
BOUNDS = "every path of each kernel (acyclic regions; loops entered once from their head); 64-bit indices"
OUTSIDE = ("the worklist as a whole (termination, the tabu list for rational trees), the heap iterator behind the "
           "occurs-check traversal (which cells it yields), unify_constant's arena dispatch, partial_string_to_pdl "
           "(string stepping: C20), attributed-variable wake-up, 'no variable outside the two terms is bound'")


# string against list: partial_string_to_pdl steps through the string with Heap::last_str_char_and_tail
HARNESSES = [
    Harness("src/machine/heap.rs", "heap_c20", "c20_last_char_multibyte_mid2", cost=60, timeout=1500,
            desc="stepping over a 2-byte character inside a string: next offset = offset + its UTF-8 length",
            bounds="ASCII + U+00F1 + ASCII, ASCII bytes symbolic", covers_required=False),
    Harness("src/machine/heap.rs", "heap_c20", "c20_last_char_multibyte_mid4", cost=60, timeout=1500,
            desc="same with a 4-byte character", bounds="ASCII + U+1F600 + ASCII", covers_required=False),
    Harness("src/machine/heap.rs", "heap_c20", "c20_last_char_3", cost=120, timeout=1500,
            desc="stepping through an ASCII string: character at the offset, next offset or tail cell",
            bounds="|s|=3, every offset", covers_required=False),
]


def mpost(results, tier="quick"):
    from vlib.mirsmt import c10, c10occ
    from vlib.common import EXIT_VIOLATION, EXIT_INCONCLUSIVE
    r1 = c10.run(thorough=(tier == "thorough"))
    r2 = c10occ.run()
    out = dict(r1)
    for k in ("evaluations", "distinct_nontrivial"):
        out[k] = r1.get(k, 0) + r2.get(k, 0)
    out["samples"] = r1.get("samples", []) + r2.get("samples", [])
    out["mirsmt_regions"] = r1.get("mirsmt_regions", []) + r2.get("mirsmt_regions", [])
    if "mirsmt_violations" in r2:
        out.setdefault("mirsmt_violations", []).extend(r2["mirsmt_violations"])
    ex = [r.get("exit", 0) for r in (r1, r2)]
    out["exit"] = EXIT_VIOLATION if EXIT_VIOLATION in ex else (EXIT_INCONCLUSIVE if EXIT_INCONCLUSIVE in ex else 0)
    return out


def run(tier):
    return kprop.run("C10", HARNESSES, tier, ASSUME, ENCODED, BOUNDS, OUTSIDE,
                     post=lambda res: mpost(res, tier))

"""C10 Unification computes most general unifiers: one step of the worklist (engine M)."""
from vlib import mprop
from vlib.mirsmt import c10

ENCODED = ["Unifier::unify_atom", "Unifier::unify_char", "Unifier::unify_structure", "Unifier::unify_list",
           "Unifier::unify_partial_string", "Unifier::unify_f64", "Unifier::unify_internal (loop body: "
           "dispatch on the first cell's tag)", "(number kernels: C05; bind/trail: C11)"]
ASSUME = ["cells are dereferenced and stored before a kernel sees them (unify_internal does so; checked "
          "as part of the routing obligation only through the operands handed on)",
          "no Str cell carries './2' (lists are Lis / PStrLoc cells: parser Term::Cons, functor/3): the "
          "arms of unify_structure x Lis and unify_list x Str that require it are unreachable, their "
          "pairing (which is wrong in unify_structure x Lis: it pushes (s1+1+i, l2+1+i)) is not demanded",
          "Atom's PartialEq::eq, get_name_and_arity, build_with are uninterpreted; calls do not change "
          "what the region reads (frame assumption, DESIGN 10.2)"]
BOUNDS = "every path of each kernel (acyclic regions; loops entered once from their head); 64-bit indices"
OUTSIDE = ("the worklist as a whole (termination, the tabu list for rational trees), occurs-check variants "
           "(bind_with_occurs_check: heap iterator), unify_constant's arena dispatch, partial_string_to_pdl "
           "(string stepping: C20), attributed-variable wake-up, 'no variable outside the two terms is bound'")


def run(tier):
    return mprop.run("C10", tier, [("kernels", c10.run)], ASSUME, ENCODED, BOUNDS, OUTSIDE)

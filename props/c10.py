"""C10 Unification computes most general unifiers: one step of the worklist (engine M)."""
from vlib import kprop
from vlib.kani import Harness

ENCODED = ["Unifier::unify_atom", "Unifier::unify_char", "Unifier::unify_structure", "Unifier::unify_list",
           "Unifier::unify_partial_string", "Unifier::unify_f64", "Unifier::unify_internal (loop body: "
           "dispatch on the first cell's tag, tabu-list hits)", "Heap::last_str_char_and_tail (K: the "
           "string stepping used by partial_string_to_pdl)", "(number kernels: C05; bind/trail: C11)"]
ASSUME = ["cells are dereferenced and stored before a kernel sees them (unify_internal does so; checked "
          "as part of the routing obligation only through the operands handed on)",
          "no Str cell carries './2' (lists are Lis / PStrLoc cells: parser Term::Cons, functor/3): the "
          "arms of unify_structure x Lis and unify_list x Str that require it are unreachable, their "
          "pairing (which is wrong in unify_structure x Lis: it pushes (s1+1+i, l2+1+i)) is not demanded",
          "Atom's PartialEq::eq, get_name_and_arity, build_with are uninterpreted; calls do not change "
          "what the region reads (frame assumption, DESIGN 10.2)"]
BOUNDS = "every path of each kernel (acyclic regions; loops entered once from their head); 64-bit indices"
OUTSIDE = ("the worklist as a whole (termination, the tabu list for rational trees), occurs-check variants "
           "(bind_with_occurs_check: heap iterator), unify_constant's arena dispatch, partial_string_to_pdl "
           "(string stepping: C20), attributed-variable wake-up, 'no variable outside the two terms is bound'")


# string against list: partial_string_to_pdl steps through the string with Heap::last_str_char_and_tail
HARNESSES = [
    Harness("src/machine/heap.rs", "heap_c20", "c20_last_char_multibyte_mid2", cost=60, timeout=1500,
            desc="stepping over a 2-byte character inside a string: next offset = offset + its UTF-8 length",
            bounds="ASCII + U+00F1 + ASCII, ASCII bytes symbolic", covers_required=False),
    Harness("src/machine/heap.rs", "heap_c20", "c20_last_char_multibyte_mid4", cost=60, timeout=1500,
            desc="same with a 4-byte character", bounds="ASCII + U+1F600 + ASCII", covers_required=False),
    Harness("src/machine/heap.rs", "heap_c20", "c20_last_char_3", cost=120, timeout=1500,
            desc="stepping through an ASCII string: character at the offset, next offset or tail cell",
            bounds="|s|=3, every offset", covers_required=False),
]


def mpost(results, tier="quick"):
    from vlib.mirsmt import c10
    return c10.run(thorough=(tier == "thorough"))


def run(tier):
    return kprop.run("C10", HARNESSES, tier, ASSUME, ENCODED, BOUNDS, OUTSIDE,
                     post=lambda res: mpost(res, tier))

"""Which properties are claimed, at what level, and why the rest are not applicable.
tools/gen_manifest.py turns this into MANIFEST.json."""

CLAIMED = {}


def claim(pid, text, note, technique, design_ref, engine="kani"):
    CLAIMED[pid] = dict(text=text, note=note, technique=technique, design_ref=design_ref,
                        engine=engine)


claim("C33",
      "Bounded model checking of the real Heap code: one operation from every fill level of a "
      "small pinned-capacity heap (inductive step), CBMC pointer checks on every write plus "
      "explicit byte_len <= byte_cap and reserved >= written assertions; growth path with the "
      "real grow. All inputs inside the stated bounds are covered by the solver; nothing outside.",
      "Trusted: CBMC's memory model for alloc/realloc, Kani's MIR translation; InnerHeap::grow "
      "stubbed to fail in the pinned family; capacities <= 72 bytes; push_pstr/functor_writer "
      "outside.",
      "Kani/CBMC bounded model checking of the compiled real code (SAT, cadical), native replay "
      "of counterexamples", "DESIGN.md §4 C33")


K = "Kani/CBMC bounded model checking of the compiled real code (SAT, cadical); native replay of counterexamples"
M = "symbolic execution of rustc MIR regions of the current tree -> SMT-LIB2 -> z3 (cvc5 cross-check in thorough); Prolog-level native replay"

claim("C01",
      "Bounded model checking of the integer kernels' Fixnum x Fixnum arms against an i128 "
      "oracle: exact value when the result fits 56 bits, otherwise exactly one delegation to "
      "dashu with the exact i64 result / the right operands; ISO error kinds. Every operand "
      "inside the stated widths is covered by the solver.",
      "dashu's arithmetic is trusted (recording stubs); bignum/rational operand arms outside "
      "(Kani mis-models TypedArenaPtr::deref); widths: full 56-bit for + - neg abs bit-ops "
      "shifts, 16x16 (+55x7, 7x55 in thorough) bits for *, 8x8 for // rem mod div, |x|<64 for gcd.",
      K, "DESIGN.md §4 C01")
claim("C02",
      "Bounded model checking over every finite double of classify_float, + (and * in "
      "thorough), the zero-divisor / sqrt / atan2 / 0**negative guards, unary_float_fn_template "
      "with libm replaced by an arbitrary double, and floor/ceiling/truncate/round against the "
      "defining inequalities; plus a MIR check that each float kernel calls the IEEE/libm "
      "function its name prescribes.",
      "CBMC's IEEE-754 semantics is the reference; the value libm returns is outside; dashu "
      "conversions are recording stubs; bignum/rational operands outside.",
      K + " + " + M, "DESIGN.md §4 C02", engine="kani+mirsmt")
claim("C03",
      "The wiring functor -> instruction -> handler -> kernel (compiled evaluator) and functor "
      "-> kernel (run-time evaluator), with operand order, is extracted from the MIR of the "
      "current tree by symbolic execution and compared by z3 for every evaluable functor.",
      "kernels are functions of their operands (C01/C02); operand fetch shared; error-context "
      "terms normalised away; findall/assert/call contexts reach the same two evaluators.",
      M, "DESIGN.md §4 C03", engine="mirsmt")
claim("C04",
      "K: Number::cmp/eq on fixnum and float arms = exact integer order / IEEE order after "
      "`as f64`, eq <=> cmp==Equal, antisymmetry, transitivity over mixed triples. M: each of the "
      "24 compare-number instruction arms succeeds exactly on the orderings its relation "
      "allows and compares (first operand, second operand) in that order.",
      "dashu's comparisons for bignum/rational sides are trusted; NaN excluded (C02).",
      K + " + " + M, "DESIGN.md §4 C04", engine="kani+mirsmt")
claim("C05",
      "M: unify_fixnum / unify_big_integer / unify_big_rational succeed exactly when the value "
      "comparison of the instruction's number with the cell's number says equal, for every "
      "representation of the cell, and fail on floats. K: bignum and fixnum cells are in the "
      "same standard-order class; all 40 representation arms of Number::{cmp, eq}; every branch on a "
      "Number's representation outside the arithmetic kernels (60 sites) handles Integer iff it "
      "handles Fixnum.",
      "dashu num_eq/eq trusted; what an integer-taking builtin computes in its Integer arm is only "
      "replayed (differential set), sorting and the database are outside (index keys: C06).",
      M + " + " + K, "DESIGN.md §4 C05", engine="mirsmt+kani")
claim("C06",
      "The key expressions of first-argument indexing on the call side and the clause side are "
      "extracted from MIR and instantiate an SMT cell model; z3 decides that equal numeric "
      "values meet under a common key (fitting values: must hold; non-fitting values: the known "
      "finding F5b).",
      "model of cell equality (raw bits / arena pointers); table construction and incremental "
      "maintenance, clause order, non-numeric routing outside.",
      M, "DESIGN.md §4 C06", engine="mirsmt")
claim("C09",
      "M: every place that reads a dynamic clause's (birth, death) stamps decides visibility "
      "as birth < cc && Finite(cc) <= death, skips dead clauses to p+next and ends the chain "
      "otherwise (6 arms). K: the derived order on Death and the visibility window.",
      "one step of each chain walk; where cc comes from, stamping at assert/retract and the "
      "histories quantifier are outside.",
      M + " + " + K, "DESIGN.md §4 C09", engine="mirsmt+kani")
claim("C10",
      "M: one step of the unification worklist. For unify_atom / unify_char / unify_structure / "
      "unify_list / unify_partial_string / unify_f64 every path is classified by the other cell's tag: "
      "variable cells get exactly one bind() of their own reference kind at their own location, cells "
      "of the same kind fail exactly when an arity or name test fails (z3 over the tests as inputs), "
      "every other kind fails; Str x Str and Lis x Lis push positionally matching argument pairs "
      "(z3 over 64-bit indices); unify_internal routes every tag to the kernel of that kind and a tabu "
      "hit skips only the current pair; variables are bound through the unifier's own bind (the "
      "occurs-check variants override it). K: stepping through a string met by a list "
      "(last_str_char_and_tail) advances by the character's UTF-8 length.",
      "the worklist as a whole (termination, tabu list / rational trees), the occurs-check variants, "
      "attributed-variable wake-up and the 'binds nothing else' clause are outside; invariant "
      "assumed: no Str cell is './2'.",
      M + " + " + K, "DESIGN.md §4 C10", engine="mirsmt+kani")
claim("C11",
      "M: MachineState::trail pushes an entry of the cell's kind whenever the bound cell is "
      "older than the newest choice point (h < hb, h < b) - sufficiency, decided by z3 over all "
      "h, hb, b - and Machine::unwind_trail resets a trailed cell to the unbound variable of its "
      "kind at the same index; bind / bind_attr_var and every system_calls.rs function that calls "
      "trail() (attribute lists, backtrackable global variables) trail each heap-cell / slot store "
      "on every path with an entry of the needed kind naming the same location; tr advances by the "
      "number of entries pushed.",
      "hb/b/tr maintenance by choice points, the unwinding arms of list links and blackboard "
      "entries, stores followed by a resource-error return, Prolog-level constructs outside.",
      M, "DESIGN.md §4 C11", engine="mirsmt")
claim("C13",
      "K: order_category puts every cell kind in the class the standard order prescribes "
      "(bignum = fixnum = Integer; f/0 = Atom), the category order is Var < Float < Integer < Atom "
      "< Compound, atoms order bytewise, numbers by value. M: in ParallelHeapIter::next every "
      "compound arm pushes the tail pair first and the head pair last, each component from its own "
      "side (z3 over 64-bit indices), functors are compared as (arity, name) left first, structure "
      "arguments are pushed in reverse; compare_pstr_slices' tail indices and mismatch window; "
      "Atom::cmp = str::cmp on the texts.",
      "the byte loop of compare_pstr_slices, the tabu list (cyclic terms), compare_term_test's "
      "folding of the pair stream, transitivity over whole compounds; invariant assumed: no Str cell "
      "is './2'.",
      K + " + " + M, "DESIGN.md §4 C13", engine="kani+mirsmt")
claim("C14",
      "M: the Rust kernels of sort/2 and keysort/2. From the MIR of MachineState::sort / keysort and "
      "their closures: sort orders by compare_term_test(*v1, *v2) (operands in order, incomparable = "
      "Less), removes exactly the neighbours that compare Equal, builds the list front to back; keysort "
      "uses the stable slice sort, compares the keys (.0) in order and returns the elements (.1); the "
      "list reader continues as a list after a leading string (F12).",
      "std's sort/dedup contracts and the standard order (C13) are assumed; the collection libraries "
      "(lists, ordsets, assoc, pairs: Prolog source) and the error checks are outside.",
      M, "DESIGN.md §4 C14", engine="mirsmt")
claim("C18",
      "K: one CharReader operation from every reader state (buf.len <= 8, pos, next chunk <= 4 "
      "then EOF) with all bytes symbolic: result = RFC 3629 decoding of the unread bytes ++ "
      "chunk, nothing consumed by peek, put_back round trip, no panic.",
      "read_chunk's 8 KiB buffer replaced by 8 bytes; sizes enumerated (lattice), bytes "
      "symbolic; remainders > 8 bytes and stream plumbing outside.",
      K, "DESIGN.md §4 C18")
claim("C20",
      "K: for strings of concrete small lengths with symbolic bytes, what push_pstr_segment "
      "writes and what scan_slice_to_str / pstr_tail_idx / compute_pstr_size / slice_to_str / "
      "copy_pstr_within / last_str_char_and_tail compute agree; the index identities hold for "
      "every length < 2^48. M: compare_pstr_slices hands back tail + (pos + own offset)/8 for each "
      "ended string and re-reads a window [pos-3, min(pos+4, len)) on a mismatch.",
      "allocate_pstr/allocate_cstr as a whole (str::find), NUL-splicing, HeapPStrIter, the copier "
      "and all string-consuming builtins outside; ASCII contents in K.",
      K + " + " + M, "DESIGN.md §4 C20", engine="kani+mirsmt")
claim("C21",
      "K: inline atoms round-trip text <-> index for lengths 1..6 (1-2 symbolic bytes), char "
      "atoms, AtomCell packing, bytewise order. z3: every entry of the generated atom! table "
      "carries the index the inline rule gives and indices are distinct; the run-time guard of "
      "AtomTable::build_with sends exactly the texts with 1 <= len <= 6 and no NUL to "
      "Atom::new_inlined; Atom::cmp = str::cmp on the texts; the interned set survives table growth "
      "(a clone is installed) and insertion (clone + the new atom).",
      "interned (dynamic) atoms beyond that data flow - IndexSet lookups, the RCU / lock protocol - are outside.",
      K + " + finite z3 table check", "DESIGN.md §4 C21", engine="kani+z3")
claim("C23",
      "M: arg/3 and functor/3. Every path of MachineState::try_arg: on a structure Arg is unified exactly when "
      "1 <= N <= arity, with the cell at o + N; on a list exactly when N is 1 or 2, with the cell at "
      "l + N - 1 (z3 over 64-bit words, for N held as a fixnum and as a bignum cell); otherwise the goal "
      "fails; unbound / non-integer / negative N and unbound / atomic Term raise the ISO errors. Every path of try_functor: an atomic term has itself / 0, "
      "a structure its own functor cell's name / arity, a list '.' / 2; with unbound T the four error "
      "classes of 8.5.1.3 are raised, an atom name builds name/arity, an atomic non-atom name with arity "
      "0 is T itself.",
      "the structure fabricated for functor/3 (heap writes), =../2, copy_term/2, term_variables/2, ground/1, subsumes_term/2 and the string arm "
      "of arg/3 are outside.",
      M, "DESIGN.md §4 C23", engine="mirsmt")
claim("C30",
      "K: with heap growth failing (realloc's failure contract injected at InnerHeap::grow) "
      "every fallible Heap operation returns AllocError and leaves length, capacity, pointer, "
      "resource_err_loc and every byte unchanged; InnerHeap::grow itself honours that contract when "
      "the allocator returns null. M: copier::copy_term restores the source term on every "
      "returning path, error returns included; every instruction helper of dispatch.rs that raises the "
      "resource error hands control to the handler (backtrack() or a caller that tests fail).",
      "store_resource_error/functor_writer, propagation macros, catchability and later goals in "
      "general are outside; allocation failure inside dashu/Vec aborts.",
      K + " + " + M, "DESIGN.md §4 C30", engine="kani+mirsmt")
claim("C55",
      "K: the quoting decision equals an ISO 6.4.2 reference for every ASCII text of 0..3 (4 in "
      "thorough) chars, escapes of 6.4.2.1, token-separation sufficiency for all ASCII char "
      "pairs, operator bracketing sufficiency for all priorities x 7x7 specifiers.",
      "HCPrinter's walk, op-table dependent decisions and non-ASCII beyond U+024F outside; the "
      "hex-escape branch (format!) is decided from the MIR: the whole code point is formatted.",
      K + " + " + M, "DESIGN.md §4 C55", engine="kani+mirsmt")

NOT_APPLICABLE = {
    "C07": "whole compiler + VM; needs a booted Machine; no unit smaller than 'compile and run' carries the property; symbolic execution of the WAM on a symbolic program fits no meaningful bound",
    "C08": "the same pipeline three ways plus the Prolog-level call/N dispatcher; needs a booted Machine",
    "C12": "catch/throw/setup_call_cleanup are Prolog-level over machine-level stack unwinding",
    "C15": "printer (HCPrinter: heap iterators + op-table IndexMap) composed with parser (Lexer/Parser bound to &mut MachineState); the token-level decisions are claimed as C55",
    "C16": "number lexing lives in Lexer methods on &mut MachineState (ICE/OOM in Kani); float text<->binary is lexical/ryu (multi-word multiplication loops)",
    "C17": "same entry points as C16 (Lexer, Parser, read_term): need MachineState",
    "C19": "Stream is an arena-allocated enum over files/sockets/TLS/pipes; reaching it pulls tokio/parking_lot thread-locals (Kani ICE) and real I/O; the decoding layer under it is C18",
    "C22": "Machine methods in system_calls.rs + Prolog-level atom_concat/sub_atom",
    "C24": "CBMC needs 218 s for the cycle detector on one concrete 3-cell graph and times out with a single symbolic cell: only concrete graphs run, which is testing, not solving",
    "C25": "findall/bagof/setof: Prolog-level + lifted-heap copying on Machine",
    "C26": "dif/freeze/when: Prolog-level attribute hooks scheduled by the dispatch loop",
    "C27": "clp(Z): ~8k lines of Prolog executed by the WAM",
    "C28": "run_query needs a booted Machine; quantifies over histories of queries",
    "C29": "toplevel is Prolog-level and I/O bound",
    "C31": "interrupt polling is a property of the running dispatch loop at every instruction boundary",
    "C32": "concurrency: Kani does not model threads; an SMT encoding of the RCU/lock protocol would be a hand model of arcu + AtomTable, not the code",
    "C34": "native stack exhaustion is not observable by a solver over program semantics; 10^6 nodes is five orders beyond any unwind bound",
    "C35": "loader + machine footprint across loads: whole-system",
    "C36": "format/2 is Prolog source (format.pl)",
    "C37": "hash/cipher kernels are external crates with data-length loops; glue is Machine-level",
    "C38": "reset/shift/tabling: Prolog-level over continuation system calls",
    "C39": "DCG translation is Prolog source",
    "C40": "inference counting threads through every Call* arm + a Prolog-level wrapper",
    "C41": "JSON library is Prolog source",
    "C42": "module resolution: loader over hash-keyed directories",
    "C43": "op/3 validation is Prolog-level (builtins.pl); the Rust kernel mutates an IndexMap; its guards alone do not carry the property",
    "C44": "flags: Prolog-level clauses over MachineFlags",
    "C45": "read_term options: Prolog-level + parser on MachineState",
    "C46": "clp(B) is Prolog source",
    "C47": "pio: Prolog-level lazy lists over streams",
    "C48": "file system: real OS effects; nothing to decide symbolically",
    "C49": "between/length/numlist/succ are Prolog source",
    "C50": "charsio: Machine-level reads/writes (C15/C17 reasons)",
    "C51": "CSV library is Prolog source",
    "C52": "random: Machine-level call over the rand crate; the range logic is two comparisons resting on gen_range's contract",
    "C53": "ugraphs is Prolog source",
    "C54": "reif is Prolog source",
}

# designed in DESIGN.md §4 but whose check is not built yet in this tree; moved to CLAIMED as
# each check lands
PENDING = {}

"""Which properties are claimed, at what level, and why the rest are not applicable.
tools/gen_manifest.py turns this into MANIFEST.json."""

CLAIMED = {}


def claim(pid, text, note, technique, design_ref, engine="kani"):
    CLAIMED[pid] = dict(text=text, note=note, technique=technique, design_ref=design_ref,
                        engine=engine)


claim("C33",
      "Bounded model checking of the real Heap code: one operation from every fill level of a "
      "small pinned-capacity heap (inductive step), CBMC pointer checks on every write plus "
      "explicit byte_len <= byte_cap and reserved >= written assertions; growth path with the "
      "real grow. All inputs inside the stated bounds are covered by the solver; nothing outside.",
      "Trusted: CBMC's memory model for alloc/realloc, Kani's MIR translation; InnerHeap::grow "
      "stubbed to fail in the pinned family; capacities <= 72 bytes; push_pstr/functor_writer "
      "outside.",
      "Kani/CBMC bounded model checking of the compiled real code (SAT, cadical), native replay "
      "of counterexamples", "DESIGN.md §4 C33")

NOT_APPLICABLE = {
    "C07": "whole compiler + VM; needs a booted Machine; no unit smaller than 'compile and run' carries the property; symbolic execution of the WAM on a symbolic program fits no meaningful bound",
    "C08": "the same pipeline three ways plus the Prolog-level call/N dispatcher; needs a booted Machine",
    "C10": "unify_internal needs MachineState (one bind exhausts 24 GB in CBMC) and keys an IndexSet tabu list on every compound pair (190 s per insert+lookup with concrete keys)",
    "C12": "catch/throw/setup_call_cleanup are Prolog-level over machine-level stack unwinding",
    "C14": "sort/keysort = std sort over compare_term_test (heap iterators + IndexSet); lists/assoc/ordsets/pairs are Prolog source executed by the WAM",
    "C15": "printer (HCPrinter: heap iterators + op-table IndexMap) composed with parser (Lexer/Parser bound to &mut MachineState); the token-level decisions are claimed as C55",
    "C16": "number lexing lives in Lexer methods on &mut MachineState (ICE/OOM in Kani); float text<->binary is lexical/ryu (multi-word multiplication loops)",
    "C17": "same entry points as C16 (Lexer, Parser, read_term): need MachineState",
    "C19": "Stream is an arena-allocated enum over files/sockets/TLS/pipes; reaching it pulls tokio/parking_lot thread-locals (Kani ICE) and real I/O; the decoding layer under it is C18",
    "C22": "Machine methods in system_calls.rs + Prolog-level atom_concat/sub_atom",
    "C23": "copy_term/term_variables/functor/arg operate on MachineState (heap+stack+trail+attr-var queues)",
    "C24": "CBMC needs 218 s for the cycle detector on one concrete 3-cell graph and times out with a single symbolic cell: only concrete graphs run, which is testing, not solving",
    "C25": "findall/bagof/setof: Prolog-level + lifted-heap copying on Machine",
    "C26": "dif/freeze/when: Prolog-level attribute hooks scheduled by the dispatch loop",
    "C27": "clp(Z): ~8k lines of Prolog executed by the WAM",
    "C28": "run_query needs a booted Machine; quantifies over histories of queries",
    "C29": "toplevel is Prolog-level and I/O bound",
    "C31": "interrupt polling is a property of the running dispatch loop at every instruction boundary",
    "C32": "concurrency: Kani does not model threads; an SMT encoding of the RCU/lock protocol would be a hand model of arcu + AtomTable, not the code",
    "C34": "native stack exhaustion is not observable by a solver over program semantics; 10^6 nodes is five orders beyond any unwind bound",
    "C35": "loader + machine footprint across loads: whole-system",
    "C36": "format/2 is Prolog source (format.pl)",
    "C37": "hash/cipher kernels are external crates with data-length loops; glue is Machine-level",
    "C38": "reset/shift/tabling: Prolog-level over continuation system calls",
    "C39": "DCG translation is Prolog source",
    "C40": "inference counting threads through every Call* arm + a Prolog-level wrapper",
    "C41": "JSON library is Prolog source",
    "C42": "module resolution: loader over hash-keyed directories",
    "C43": "op/3 validation is Prolog-level (builtins.pl); the Rust kernel mutates an IndexMap; its guards alone do not carry the property",
    "C44": "flags: Prolog-level clauses over MachineFlags",
    "C45": "read_term options: Prolog-level + parser on MachineState",
    "C46": "clp(B) is Prolog source",
    "C47": "pio: Prolog-level lazy lists over streams",
    "C48": "file system: real OS effects; nothing to decide symbolically",
    "C49": "between/length/numlist/succ are Prolog source",
    "C50": "charsio: Machine-level reads/writes (C15/C17 reasons)",
    "C51": "CSV library is Prolog source",
    "C52": "random: Machine-level call over the rand crate; the range logic is two comparisons resting on gen_range's contract",
    "C53": "ugraphs is Prolog source",
    "C54": "reif is Prolog source",
}

# designed in DESIGN.md §4 but whose check is not built yet in this tree; moved to CLAIMED as
# each check lands
PENDING = {
    "C01": "designed (DESIGN §4 C01: Kani on the arithmetic kernels); check not built yet in this tree",
    "C02": "designed (DESIGN §4 C02); check not built yet in this tree",
    "C03": "designed (DESIGN §4 C03: MIR-slice wiring tables); check not built yet in this tree",
    "C04": "designed (DESIGN §4 C04); check not built yet in this tree",
    "C05": "designed (DESIGN §4 C05); check not built yet in this tree",
    "C06": "designed (DESIGN §4 C06); check not built yet in this tree",
    "C09": "designed (DESIGN §4 C09); check not built yet in this tree",
    "C11": "designed (DESIGN §4 C11); check not built yet in this tree",
    "C13": "designed (DESIGN §4 C13); check not built yet in this tree",
    "C18": "designed (DESIGN §4 C18); check not built yet in this tree",
    "C20": "designed (DESIGN §4 C20); check not built yet in this tree",
    "C21": "designed (DESIGN §4 C21); check not built yet in this tree",
    "C30": "designed (DESIGN §4 C30); check not built yet in this tree",
    "C55": "designed (DESIGN §4 C55); check not built yet in this tree",
}

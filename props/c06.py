"""C06 Clause selection: constant keys of first-argument indexing (engine M)."""
from vlib import mprop
from vlib.mirsmt import c06, idxorder

ENCODED = ["every function that looks a cell up in a SwitchOnConstant table (execute_switch_on_term, next_clause_applicable) and MachineState::switch_on_constant_key",
           "CodeOffsets::index_constant (keys entered per clause constant)",
           "indexing::constant_key_alternatives",
           "MachineState::select_switch_on_term_index (first-level routing table, 10 cell kinds)",
           "CodeOffsets::compute_indices (layout: final con/str/lst pointers = emitted index + number of "
           "switch lines emitted after them; the emitters' flags are free 0/1 inputs)",
           "every function of indexing.rs that branches on append_or_prepend.is_append() (7: "
           "search_skeleton_for_first_key_type, add_{static,dynamic}_indexed_choice_for_{constant,structure}, "
           "extend_indexed_choice, index_list): append <=> the new clause goes last, prepend <=> first",
           "Machine::next_clause_applicable (the clause look-ahead): per head instruction, no kind of cell "
           "its unification kernel accepts is rejected by tag"]
ASSUME = ["cell model: kind in {fixnum, bignum cell, rational cell}, denoted integer, arena "
          "pointer; HeapCellValue's derived Eq = raw bits (arena cells equal iff same pointer)",
          "the facts instantiating the model are re-extracted from the MIR of the current tree "
          "on every run"]
BOUNDS = "all integers (unbounded Int in the model), all pairs of cells denoting the same value"
OUTSIDE = ("the emitters themselves (Indexer::switch_on / switch_on_list), incremental maintenance of the "
           "tables beyond the order decisions (merge_clause_index, remove_index: IndexMap + VecDeque surgery), floats (F64Table de-duplicates), second-level atom/structure keys")


def run(tier):
    return mprop.run("C06", tier, [("keys", c06.run), ("order", lambda thorough=False: idxorder.run(thorough, prop="C06"))], ASSUME, ENCODED, BOUNDS, OUTSIDE)

"""C06 Clause selection: constant keys of first-argument indexing (engine M)."""
from vlib import mprop
from vlib.mirsmt import c06

ENCODED = ["every function that looks a cell up in a SwitchOnConstant table (execute_switch_on_term, next_clause_applicable) and MachineState::switch_on_constant_key",
           "CodeOffsets::index_constant (keys entered per clause constant)",
           "indexing::constant_key_alternatives"]
ASSUME = ["cell model: kind in {fixnum, bignum cell, rational cell}, denoted integer, arena "
          "pointer; HeapCellValue's derived Eq = raw bits (arena cells equal iff same pointer)",
          "the facts instantiating the model are re-extracted from the MIR of the current tree "
          "on every run"]
BOUNDS = "all integers (unbounded Int in the model), all pairs of cells denoting the same value"
OUTSIDE = ("construction and incremental maintenance of the tables (compute_indices, "
           "merge_clause_index, remove_index: IndexMap + VecDeque surgery), clause order inside a "
           "bucket, floats (F64Table de-duplicates), atoms/structures/lists routing")


def run(tier):
    return mprop.run("C06", tier, [("keys", c06.run)], ASSUME, ENCODED, BOUNDS, OUTSIDE)

"""C21 Atom identity is text identity: inline atoms, char atoms, static table (K + finite z3)."""
from vlib.kani import Harness
from vlib import kprop

SRC = "src/atom_table.rs"
MOD = "atom_c21"
Q = ("quick", "thorough")
T = ("thorough",)
D = ("deep",)     # unregistered: did not finish within 35 min here (symbolic-length memcmp in str::cmp)


def H(name, cost, desc, bounds, tiers=Q, **kw):
    return Harness(SRC, MOD, name, cost=cost, desc=desc, bounds=bounds, tiers=tiers,
                   covers_required=False, **kw)


RT = "new_inlined -> index -> le bytes -> inlined_to_str is the identity; AtomCell keeps (name, arity)"
HARNESSES = [
    H("c21_roundtrip_1", 20, RT, "|s|=1, 1 symbolic byte"),
    H("c21_roundtrip_2", 30, RT, "|s|=2, symbolic bytes at 0,1"),
    H("c21_roundtrip_3", 30, RT, "|s|=3, symbolic bytes at 0,2", tiers=T),
    H("c21_roundtrip_4", 30, RT, "|s|=4, symbolic bytes at 1,3", tiers=T),
    H("c21_roundtrip_5", 30, RT, "|s|=5, symbolic bytes at 0,4", tiers=T),
    H("c21_roundtrip_6a", 40, RT, "|s|=6 (the inline limit), symbolic bytes at 0,5"),
    H("c21_roundtrip_6b", 40, RT, "|s|=6, symbolic bytes at 2,3", tiers=T),
    H("c21_roundtrip_6c", 40, RT, "|s|=6, symbolic bytes at 4,5", tiers=T),
    H("c21_order_1", 400, "atoms differing in one byte are distinct and ordered bytewise", "|s|=1",
      tiers=D, timeout=3600),
    H("c21_order_3", 60, "same", "|s|=3, position 1", tiers=D),
    H("c21_order_6_first", 900, "same", "|s|=6, position 0", tiers=D, timeout=3600),
    H("c21_order_6_last", 120, "same", "|s|=6, position 5", tiers=D, timeout=1500),
    H("c21_prefix_is_smaller", 400, "a proper prefix is a different, smaller atom", "|s|=2 vs 3",
      tiers=D, timeout=3600),
    H("c21_char_atom", 60, "new_char_inlined(c) = atom of the one-char text; NUL -> static atom",
      "every Unicode scalar value"),
    H("c21_atom_cell_packing", 20, "AtomCell::build_with/get_name/get_arity lossless",
      "every index < 2^49, every arity"),
    H("c21_static_atoms_sample", 60, "sample of the generated atom! table: inline rule applied",
      "3 atoms"),
]
ENCODED = ["Atom::new_inlined", "AtomCell::new_inlined", "AtomCell::new_char_inlined",
           "AtomCell::build_with", "AtomCell::get_name", "AtomCell::get_arity", "inlined_to_str",
           "Atom::flat_index", "Atom::is_inlined", "Atom::as_str (inline/static arms)",
           "Atom::len", "<Atom as Ord>::cmp", "generated atom! table (static_atoms.rs)",
           "AtomTable::build_with (MIR: the inline guard; the interned set is replaced only by a clone of "
           "itself on growth and by clone + new atom on insertion)"]
ASSUME = ["texts are ASCII non-NUL with 1-2 symbolic byte positions per harness on a fixed "
          "template (more symbolic bytes do not finish, DESIGN P23)",
          "S1: arcu thread-local epoch counter stub where as_str is reached",
          "quick tier: the order of atoms rests on the MIR fact Atom::cmp = str::cmp(as_str(a), as_str(b)) plus the K round trip; the direct K order harnesses (symbolic-length memcmp in str::cmp) did not finish within 35 minutes each and are in no registered tier"]
BOUNDS = "lengths 1..6; every scalar value for char atoms; every 49-bit index for cell packing"
OUTSIDE = ("interned (dynamic) atoms beyond the data flow of the set through growth and insertion: IndexSet "
           "lookups, the RCU + lock protocol (concurrency), atom-producing builtins")


def mpost(results):
    from vlib import static_atoms
    return static_atoms.run()


def run(tier):
    return kprop.run("C21", HARNESSES, tier, ASSUME, ENCODED, BOUNDS, OUTSIDE, post=mpost)

"""C13 standard order: category order and leaf comparisons (engine K)."""
from vlib.kani import Harness
from vlib import kprop

Q = ("quick", "thorough")
T = ("thorough",)
D = ("deep",)     # unregistered: did not finish within 35 min here (symbolic-length memcmp in str::cmp)


def HT(name, cost, desc, bounds, tiers=Q, **kw):
    return Harness("src/types.rs", "types_c13", name, cost=cost, desc=desc, bounds=bounds,
                   tiers=tiers, covers_required=False, **kw)


def HA(name, cost, desc, bounds, tiers=Q, **kw):
    return Harness("src/atom_table.rs", "atom_c21", name, cost=cost, desc=desc, bounds=bounds,
                   tiers=tiers, covers_required=False, **kw)


def HN(name, cost, desc, bounds, tiers=Q, **kw):
    return Harness("src/arithmetic.rs", "arithf_c04", name, cost=cost, desc=desc, bounds=bounds,
                   tiers=tiers, covers_required=False, **kw)


HARNESSES = [
    HT("c13_category_order", 5, "Var < Float < Integer < Atom < Compound", "enum order"),
    HT("c13_category_str_and_atom", 90, "f/0 through a Str cell or directly is an Atom; arity>0 "
       "is Compound", "every arity 0..255", timeout=1200),
    HT("c13_category_leaf_cells", 90, "fixnums are Integer; Var/AttrVar/StackVar are Variable; "
       "Lis/PStrLoc are Compound; [] is Atom", "56-bit fixnum, locations < 2^40", timeout=1200),
    HT("c13_category_bignum", 120, "a bignum cell is in the Integer class (same as fixnums)",
       "any i64 stored as a bignum", timeout=1200),
    HA("c21_order_1", 400, "atoms order by their bytes (= code points in UTF-8)", "|s|=1", tiers=D,
       timeout=3600),
    HA("c21_order_6_first", 900, "same", "|s|=6 pos 0", tiers=D, timeout=3600),
    HA("c21_roundtrip_2", 30, "as_str(new_inlined(s)) == s (with the MIR fact Atom::cmp = str::cmp on "
       "as_str texts: atoms order by their bytes)", "|s|=2"),
    HA("c21_roundtrip_6a", 40, "same", "|s|=6"),
    HA("c21_order_3", 60, "same", "|s|=3", tiers=D),
    HA("c21_order_6_last", 120, "same", "|s|=6 pos 5", tiers=D, timeout=1500),
    HA("c21_prefix_is_smaller", 400, "proper prefix sorts first", "|s|=2 vs 3", tiers=D, timeout=3600),
    HN("c04_cmp_fix_fix", 20, "numbers of a class compare by value (integers)", "56-bit"),
    HN("c04_cmp_float_float", 20, "floats compare by value", "finite doubles"),
]
ENCODED = ["HeapCellValue::order_category", "TermOrderCategory (derived Ord)", "<Atom as Ord>::cmp",
           "<Number as Ord>::cmp (fixnum, float arms)",
           "ParallelHeapIter::next compound arms (MIR: push order, sides, (arity, name) comparisons, "
           "Str x Str argument loop)",
           "compare_pstr_slices::{closure} (MIR: tail indices, mismatch window)",
           "Number::{cmp, eq}: all 40 representation arms (MIR; shared with C04 / C05)",
           "ParallelHeapIter::parallel_cmp, MachineState::compare_term_test (MIR: folding of the pair stream)"]
ASSUME = ["inline atoms only (ASCII, 1 symbolic byte per atom)", "4-cell heap",
          "M: no Str cell carries './2' (lists are Lis/PStrLoc cells: parser Term::Cons, functor/3), so the "
          "pushes of the four Str x list arms are unreachable (z3 decides the infeasibility)",
          "M: parallel_cmp returning None means its operands are equal; heap_bound_deref/store, "
          "last_str_char_and_tail, compare_pstr_segments are uninterpreted"]
BOUNDS = "one symbolic cell per harness on a 4-cell heap; atoms of length 1..6"
OUTSIDE = ("compare_pstr_slices byte loop (758 s with two symbolic bytes; its tail index is C20's M part), "
           "the IndexSet tabu list (cyclic terms), the variable / number / atom leaf arms of the iterator "
           "beyond the category and leaf harnesses, compare_term_test's folding of the pair stream, and "
           "transitivity over whole compound terms")


def mpost(results, tier="quick"):
    from vlib import static_atoms
    from vlib.mirsmt import c13 as m13
    from vlib.common import EXIT_INCONCLUSIVE, EXIT_OK, EXIT_VIOLATION, log
    ok = static_atoms.atom_order_wiring()
    log("  Atom::cmp = str::cmp(as_str(a), as_str(b)) (MIR): %s" % ok)
    r = m13.run(thorough=(tier == "thorough"))
    # compare_pstr_slices (string x string segments): tail indices and mismatch window
    from vlib.mirsmt import c20 as m20
    r2 = m20.run(thorough=(tier == "thorough"), prop="C13")
    r["evaluations"] = r.get("evaluations", 0) + r2.get("evaluations", 0)
    r["distinct_nontrivial"] = r.get("distinct_nontrivial", 0) + r2.get("distinct_nontrivial", 0)
    r.setdefault("samples", []).extend(r2.get("samples", []))
    r.setdefault("mirsmt_regions", []).extend(r2.get("mirsmt_regions", []))
    e1, e2 = r.get("exit", EXIT_OK), r2.get("exit", EXIT_OK)
    r["exit"] = EXIT_VIOLATION if EXIT_VIOLATION in (e1, e2) else (
        EXIT_INCONCLUSIVE if EXIT_INCONCLUSIVE in (e1, e2) else EXIT_OK)
    if "mirsmt_violations" in r2:
        r.setdefault("mirsmt_violations", []).extend(r2["mirsmt_violations"])
    # numbers of the same class compare by value: the 40 representation arms of Number::{cmp, eq}
    from vlib.mirsmt import numarms
    r3 = numarms.run(label="C13")
    r["evaluations"] = r.get("evaluations", 0) + r3.get("evaluations", 0)
    r["distinct_nontrivial"] = r.get("distinct_nontrivial", 0) + r3.get("distinct_nontrivial", 0)
    r.setdefault("samples", []).extend(r3.get("samples", [])[:6])
    e3 = r3.get("exit", EXIT_OK)
    if e3 == EXIT_VIOLATION or (e3 == EXIT_INCONCLUSIVE and r["exit"] == EXIT_OK):
        r["exit"] = e3
    r.setdefault("samples", []).append(
        {"query": "<Atom as Ord>::cmp compares the as_str texts, self first", "answer": ok})
    r["evaluations"] = r.get("evaluations", 0) + 1
    r["distinct_nontrivial"] = r.get("distinct_nontrivial", 0) + (1 if ok else 0)
    if not ok and r.get("exit", EXIT_OK) != EXIT_VIOLATION:
        r["exit"] = static_atoms.order_replay("C13")
    return r


def run(tier):
    return kprop.run("C13", HARNESSES, tier, ASSUME, ENCODED, BOUNDS, OUTSIDE, post=lambda res: mpost(res, tier))

"""C13 standard order: category order and leaf comparisons (engine K)."""
from vlib.kani import Harness
from vlib import kprop

Q = ("quick", "thorough")
T = ("thorough",)


def HT(name, cost, desc, bounds, tiers=Q, **kw):
    return Harness("src/types.rs", "types_c13", name, cost=cost, desc=desc, bounds=bounds,
                   tiers=tiers, covers_required=False, **kw)


def HA(name, cost, desc, bounds, tiers=Q, **kw):
    return Harness("src/atom_table.rs", "atom_c21", name, cost=cost, desc=desc, bounds=bounds,
                   tiers=tiers, covers_required=False, **kw)


def HN(name, cost, desc, bounds, tiers=Q, **kw):
    return Harness("src/arithmetic.rs", "arithf_c04", name, cost=cost, desc=desc, bounds=bounds,
                   tiers=tiers, covers_required=False, **kw)


HARNESSES = [
    HT("c13_category_order", 5, "Var < Float < Integer < Atom < Compound", "enum order"),
    HT("c13_category_str_and_atom", 90, "f/0 through a Str cell or directly is an Atom; arity>0 "
       "is Compound", "every arity 0..255", timeout=1200),
    HT("c13_category_leaf_cells", 90, "fixnums are Integer; Var/AttrVar/StackVar are Variable; "
       "Lis/PStrLoc are Compound; [] is Atom", "56-bit fixnum, locations < 2^40", timeout=1200),
    HT("c13_category_bignum", 120, "a bignum cell is in the Integer class (same as fixnums)",
       "any i64 stored as a bignum", timeout=1200),
    HA("c21_order_1", 400, "atoms order by their bytes (= code points in UTF-8)", "|s|=1", tiers=T,
       timeout=3600),
    HA("c21_order_6_first", 900, "same", "|s|=6 pos 0", tiers=T, timeout=3600),
    HA("c21_roundtrip_2", 30, "as_str(new_inlined(s)) == s (with the MIR fact Atom::cmp = str::cmp on "
       "as_str texts: atoms order by their bytes)", "|s|=2"),
    HA("c21_roundtrip_6a", 40, "same", "|s|=6"),
    HA("c21_order_3", 60, "same", "|s|=3", tiers=T),
    HA("c21_order_6_last", 120, "same", "|s|=6 pos 5", tiers=T, timeout=1500),
    HA("c21_prefix_is_smaller", 400, "proper prefix sorts first", "|s|=2 vs 3", tiers=T, timeout=3600),
    HN("c04_cmp_fix_fix", 20, "numbers of a class compare by value (integers)", "56-bit"),
    HN("c04_cmp_float_float", 20, "floats compare by value", "finite doubles"),
]
ENCODED = ["HeapCellValue::order_category", "TermOrderCategory (derived Ord)", "<Atom as Ord>::cmp",
           "<Number as Ord>::cmp (fixnum, float arms)"]
ASSUME = ["inline atoms only (ASCII, 1 symbolic byte per atom)", "4-cell heap"]
BOUNDS = "one symbolic cell per harness on a 4-cell heap; atoms of length 1..6"
OUTSIDE = ("compare_pstr_slices (758 s with two symbolic bytes), ParallelHeapIter (arity-name-args "
           "order, list/string cross-representation, IndexSet tabu list): strings vs lists and "
           "transitivity over compound terms are not covered")


def mpost(results):
    from vlib import static_atoms
    ok = static_atoms.atom_order_wiring()
    from vlib.common import EXIT_INCONCLUSIVE, log
    log("  Atom::cmp = str::cmp(as_str(a), as_str(b)) (MIR): %s" % ok)
    r = {"evaluations": 1, "distinct_nontrivial": 1 if ok else 0,
         "samples": [{"query": "<Atom as Ord>::cmp compares the as_str texts, self first", "answer": ok}]}
    if not ok:
        r["exit"] = EXIT_INCONCLUSIVE
    return r


def run(tier):
    return kprop.run("C13", HARNESSES, tier, ASSUME, ENCODED, BOUNDS, OUTSIDE, post=mpost)

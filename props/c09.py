"""C09 logical update view: the visibility predicate (M) + the stamp order (K)."""
from vlib.kani import Harness
from vlib import kprop

HARNESSES = [
    Harness("src/instructions.rs", "instr_c09", "c09_death_order", cost=10,
            desc="derived Ord on Death: Finite(a)<=Finite(b) <=> a<=b; Finite<=Infinity; "
                 "not Infinity<=Finite", bounds="any usize pair", covers_required=False),
    Harness("src/instructions.rs", "instr_c09", "c09_visibility_window", cost=10,
            desc="birth < cc && Finite(cc) <= death  <=>  birth < cc <= death; a dead clause "
                 "stays dead for later observers", bounds="any stamps", covers_required=False),
]
ENCODED = ["<Death as PartialOrd>::le/lt (derived)", "Machine::find_living_dynamic_else (4 arms)",
           "Machine::find_living_dynamic", "execute_switch_on_term::"
           "dynamic_external_of_clause_is_valid"]
ASSUME = ["one step of each chain walk (the walk is induction on the chain)",
          "where cc comes from (captured at First, restored from the or-frame at Next), stamping "
          "at assert/retract and index maintenance are outside"]
BOUNDS = "every (birth, death, cc, next) - symbolic 64-bit words / booleans"
OUTSIDE = ("the histories quantifier (interleavings of updates with live choice points), "
           "compile.rs stamping, retract's Prolog side, clause/2")


def mpost(results):
    from vlib.mirsmt import c09
    return c09.run()


def run(tier):
    return kprop.run("C09", HARNESSES, tier, ASSUME, ENCODED, BOUNDS, OUTSIDE, post=mpost)

"""C09 logical update view: the visibility predicate (M) + the stamp order (K)."""
from vlib.kani import Harness
from vlib import kprop

HARNESSES = [
    Harness("src/instructions.rs", "instr_c09", "c09_death_order", cost=10,
            desc="derived Ord on Death: Finite(a)<=Finite(b) <=> a<=b; Finite<=Infinity; "
                 "not Infinity<=Finite", bounds="any usize pair", covers_required=False),
    Harness("src/instructions.rs", "instr_c09", "c09_visibility_window", cost=10,
            desc="birth < cc && Finite(cc) <= death  <=>  birth < cc <= death; a dead clause "
                 "stays dead for later observers", bounds="any stamps", covers_required=False),
]
ENCODED = ["<Death as PartialOrd>::le/lt (derived)", "Machine::find_living_dynamic_else (4 arms)",
           "Machine::find_living_dynamic", "execute_switch_on_term::"
           "dynamic_external_of_clause_is_valid",
           "dispatch_loop DynamicElse / DynamicInternalElse / DynamicIndexedChoice arms (generation restored "
           "before the first stamp read; the generation saved for the retry is cc)",
           "indexing.rs append/prepend decisions (asserta puts the clause first, assertz last, in every "
           "index bucket) - shared with C06",
           "stamping: Loader::incremental_compile_clause, compile_assert::{closure#1}, retract_clause::{closure#0}, "
           "Loader::retract_dynamic_clause, the code generator's dynamic clause heads (all paths); every store to "
           "cc / global_clock in the crate (MIR text)"]
ASSUME = ["one step of each chain walk (the walk is induction on the chain)",
          "on which paths cc is captured / restored (only the stored values are checked); g < 2^64 - 1"]
BOUNDS = "every (birth, death, cc, next) - symbolic 64-bit words / booleans"
OUTSIDE = ("the histories quantifier (interleavings of updates with live choice points), "
           "consult-time stamping (compile_and_submit), retract's Prolog side, clause/2")


def mpost(results):
    from vlib.mirsmt import c09, c09stamps, idxorder
    from vlib.common import EXIT_VIOLATION, EXIT_INCONCLUSIVE
    r1 = c09.run()
    r2 = idxorder.run(prop="C09")
    r3 = c09stamps.run()
    out = dict(r1)
    out["evaluations"] = r1.get("evaluations", 0) + r2.get("evaluations", 0)
    out["distinct_nontrivial"] = r1.get("distinct_nontrivial", 0) + r2.get("distinct_nontrivial", 0)
    out["samples"] = r1.get("samples", []) + r2.get("samples", [])
    out["mirsmt_regions"] = r1.get("mirsmt_regions", []) + r2.get("mirsmt_regions", [])
    if "mirsmt_violations" in r2:
        out.setdefault("mirsmt_violations", []).extend(r2["mirsmt_violations"])
    for k in ("evaluations", "distinct_nontrivial"):
        out[k] += r3.get(k, 0)
    out["samples"] = out["samples"] + r3.get("samples", [])
    out["mirsmt_regions"] = out["mirsmt_regions"] + r3.get("mirsmt_regions", [])
    if "mirsmt_violations" in r3:
        out.setdefault("mirsmt_violations", []).extend(r3["mirsmt_violations"])
    ex = [r.get("exit", 0) for r in (r1, r2, r3)]
    out["exit"] = EXIT_VIOLATION if EXIT_VIOLATION in ex else (EXIT_INCONCLUSIVE if EXIT_INCONCLUSIVE in ex else 0)
    return out


def run(tier):
    return kprop.run("C09", HARNESSES, tier, ASSUME, ENCODED, BOUNDS, OUTSIDE, post=mpost)

"""C30 Memory exhaustion: heap layer fails cleanly (engine K)."""
from vlib.kani import Harness
from vlib import kprop

SRC = "src/machine/heap.rs"
MOD = "heap_c30"
S3 = "InnerHeap::grow -> false"


def H(name, cost, desc, bounds, stubs=None, **kw):
    return Harness(SRC, MOD, name, cost=cost, desc=desc, bounds=bounds, stubs=tuple(stubs or (S3,)), **kw)


HARNESSES = [
    H("c30_push_cell_fails_cleanly", 20, "push_cell on a full heap", "cap=len=5",
      covers_required=False),
    H("c30_reserve_fails_cleanly", 20, "reserve(n) beyond the free space, incl. 8*n overflow",
      "cap=5, len 0..5, any n > free"),
    H("c30_append_fails_cleanly", 30, "append of a heap that does not fit", "other 1..3 cells",
      covers_required=False),
    H("c30_copy_slice_fails_cleanly", 30, "copy_slice_to_end that does not fit", "any sub-range",
      covers_required=False),
    H("c30_copy_pstr_fails_cleanly", 30, "copy_pstr_within: fails only when the copy really does "
      "not fit, and then cleanly", "s_len 1..7, len 3..5"),
    H("c30_list_builder_fails_cleanly", 60, "sized_iter_to_heap_list: Err iff it does not fit "
      "(incl. 2*size overflow), unchanged on Err", "size 1..2 or huge"),
    H("c30_grow_keeps_heap_when_realloc_fails", 20, "InnerHeap::grow with the allocator returning null: "
      "false, heap untouched (the contract S3 stands for)", "cap 5, len 0..5", covers_required=False,
      stubs=["std::alloc::realloc -> null"]),
    H("c30_grow_doubles_when_realloc_succeeds", 20, "InnerHeap::grow on success: capacity doubled, length kept",
      "cap 5, len 0..5", covers_required=False, stubs=["none"]),
    H("c30_allocate_str_fails_cleanly", 60, "allocate_cstr/allocate_pstr on a full heap fail "
      "before writing", "\"ab\" on a full 5-cell heap", covers_required=False),
]
ENCODED = ["InnerHeap::grow (against std::alloc's failure contract)", "Heap::push_cell", "Heap::reserve", "Heap::append", "Heap::copy_slice_to_end",
           "Heap::copy_pstr_within", "sized_iter_to_heap_list", "Heap::allocate_cstr (reserve half)",
           "Heap::allocate_pstr (reserve half)", "Heap::compute_pstr_size",
           "copier::copy_term (MIR: every returning path, error returns included, restores the source "
           "term's forwarding cells first - F11)",
           "every function of dispatch.rs that calls throw_resource_error (20: the get_*/unify_*/put_*/"
           "set_* instruction helpers, copy_term, sort, keysort): on each path the raised error is followed "
           "by backtrack(), or every call site in dispatch_loop tests `fail` before the next instruction"]
ASSUME = ["S3: InnerHeap::grow is replaced by realloc's failure contract (returns false, heap "
          "untouched) - this *is* the injected fault",
          "unchanged = byte_len, byte_cap, ptr, resource_err_loc and one arbitrary byte of the "
          "allocation (so: every byte) keep their values"]
BOUNDS = "capacity 5 cells, fill level symbolic; unwind 10..18"
OUTSIDE = ("store_resource_error/functor_writer, the propagation macros, throw_resource_error, "
           "catchability and later goals in general (only copy_term's restoration is decided); the "
           "FiniteMemoryInHeap arm of syntax_error (reading an oversized string panics when the ball is "
           "fetched: reproduced, recorded in DESIGN 10.4 as outside the claim); allocation failure "
           "inside dashu/Vec (aborts in Rust); Stack and arena allocation")


def mpost(results, tier="quick"):
    from vlib.mirsmt import c30 as m30
    return m30.run(thorough=(tier == "thorough"))


def run(tier):
    return kprop.run("C30", HARNESSES, tier, ASSUME, ENCODED, BOUNDS, OUTSIDE,
                     post=lambda res: mpost(res, tier))

"""C01 Integer arithmetic is exact at every magnitude (engine K: Fixnum arms + fallbacks)."""
from vlib.kani import Harness
from vlib import kprop

SRC = "src/machine/arithmetic_ops.rs"
MOD = "arith_c01"
Q = ("quick", "thorough")
T = ("thorough",)
D = ("deep",)     # unregistered tier: instances that do not finish within an hour here


def H(name, cost, desc, bounds, tiers=Q, **kw):
    return Harness(SRC, MOD, name, cost=cost, desc=desc, bounds=bounds, tiers=tiers, **kw)


HARNESSES = [
    H("c01_add", 60, "add on two fixnums vs i128 sum; overflow -> bignum of the exact value",
      "both operands full 56-bit"),
    H("c01_sub", 150, "sub vs i128 difference (S10: neg modelled for rhs != MIN; neg itself: c01_neg)",
      "full 56-bit, rhs != MIN"),
    H("c01_neg", 20, "neg", "full 56-bit"),
    H("c01_abs", 20, "abs (MIN -> 2^55 bignum)", "full 56-bit"),
    H("c01_sign", 10, "sign", "full 56-bit"),
    H("c01_min_max", 10, "min/max", "full 56-bit"),
    H("c01_bitops", 30, "/\\ \\/ xor \\ vs two's complement", "full 56-bit"),
    H("c01_mul_16x16", 60, "mul vs i128 product", "|x|,|y| < 2^16"),
    H("c01_mul_55x7", 420, "mul crossing the fixnum boundary", "|x| < 2^55, |y| < 2^7", tiers=T,
      timeout=3000),
    H("c01_mul_7x55", 120, "mul crossing the fixnum boundary (swapped)", "|x| < 2^7, |y| < 2^55",
      tiers=T),
    H("c01_mul_32x31", 600, "mul vs i128 product", "|x| < 2^32, |y| < 2^31", tiers=D,
      timeout=3000),
    H("c01_mul_overflow_delegates", 380, "i64-overflowing product is delegated to dashu with "
      "both operands intact", "x full 56-bit, y = +-2^k, k 9..55, product overflows i64", tiers=T,
      timeout=3000),
    H("c01_div_rem_mod_8x8", 430, "// rem mod vs defining equations", "|x|,|y| < 2^8", timeout=1500),
    H("c01_div_rem_mod_16x16", 1200, "// rem mod vs defining equations", "|x|,|y| < 2^16", tiers=D,
      timeout=5400),
    H("c01_div_rem_mod_55x8", 300, "// rem mod", "|x| < 2^55, |y| < 2^8", tiers=D, timeout=3000),
    H("c01_div_rem_mod_24x24", 600, "// rem mod", "|x|,|y| < 2^24", tiers=D, timeout=3000),
    H("c01_idiv_min_by_minus_one", 10, "MIN // -1 = 2^55 as a bignum", "concrete"),
    H("c01_int_floor_div", 490, "div vs floor inequality (S10)", "|x|,|y| < 2^8", tiers=T, timeout=3000),
    H("c01_shr_nonneg_count", 60, ">> by any count 0..2^55 is floor(x/2^s) (F1 site)",
      "x full 56-bit, s 0..2^55-1; sibling shl stubbed away"),
    H("c01_shl_nonneg_count", 90, "<< by any count: exact fixnum or delegated bignum shift",
      "x full 56-bit, s 0..2^55-1; sibling shr stubbed away"),
    H("c01_shr_negative_count_forwards", 20, ">> by negative count = << by -count",
      "s in MIN+1..-1"),
    H("c01_shl_negative_count_forwards", 20, "<< by negative count = >> by -count",
      "s in MIN+1..-1"),
    H("c01_checked_signed_shl", 10, "checked_signed_shl never returns a wrong value",
      "any i64, any usize"),
    H("c01_gcd_small", 120, "gcd: divides both, positive, maximal", "|x|,|y| < 64"),
    H("c01_gcd_zero_left", 200, "gcd(0,y) = |y| incl. MIN (2^55 as a bignum)", "y full 56-bit",
      timeout=1500),
    H("c01_gcd_zero_right", 200, "gcd(y,0) = |y| incl. MIN", "y full 56-bit", tiers=T,
      timeout=1500),
    H("c01_int_pow_small", 510, "^ : exact power", "|base| <= 40, exponent 0..6", tiers=T, timeout=3000),
    H("c01_int_pow_negative_exponent", 120, "^ with negative exponent: 0 -> undefined, |b|>1 -> "
      "type_error(float), +-1 -> delegated", "base full 56-bit, exponent any negative fixnum", tiers=T,
      timeout=3000),
    H("c01_int_pow_overflow_delegates", 120, "i64-overflowing power delegated to binary_pow "
      "with (base, exponent)", "base in {2,-2,3,10}, exponent 64..70"),
]

ENCODED = ["arithmetic_ops::add", "sub", "neg", "abs", "mul", "idiv", "remainder", "modulus",
           "int_floor_div", "shl", "shr", "checked_signed_shl", "and", "or", "xor",
           "bitwise_complement", "gcd", "isize_gcd", "int_pow", "min", "max", "Number::sign",
           "Fixnum::build_with_checked", "Fixnum::build_with_unchecked", "Fixnum::get_num",
           "Fixnum::checked_abs", "Number::arena_from::<i64|isize>", "fixnum!", "Arena::new",
           "arena_alloc!"]
ASSUME = [
    "S4: <IBig as From<i64>>::from is replaced by a recording model (argument stored, call "
    "counted, returns 0); IBig*IBig and IBig<<usize likewise where reached: the *value* of a "
    "bignum result is dashu's (trusted); what is checked is that the exact i64 result / the "
    "right operands reach dashu exactly once",
    "S5: zero_divisor_eval_error / undefined_eval_error / numerical_type_error are replaced by "
    "recorders that end the error path (the error kind is checked, the error term is not)",
    "S6: in the shift harnesses the mutually recursive sibling is stubbed (negative counts are "
    "checked by the *_forwards harnesses)",
    "S10: in c01_sub / c01_int_floor_div, neg is replaced by its fixnum case for operands != MIN "
    "(the MIN case is c01_neg's); ",
    "operands that are already bignums or rationals are outside (Kani mis-models "
    "TypedArenaPtr::deref, DESIGN P18)",
]
BOUNDS = ("full 56-bit operands for + - neg abs sign min max /\\ \\/ xor \\ << >>; * : 16x16 (quick), "
          "+55x7, 7x55 (thorough); // rem mod: 8x8 (quick); div: 8x8 (thorough); wider division / "
          "multiplication instances (16x16, 24x24, 55x8, 32x31) did not finish within an hour and are "
          "not part of any registered tier; gcd < 64; ^ |base|<=40, exp -3..6; unwind 10..40")
OUTSIDE = ("values computed by dashu; bignum/rational operand arms; nested expressions (C03)")


def mpost(results):
    from vlib.mirsmt import c01
    return c01.run()


def run(tier):
    return kprop.run("C01", HARNESSES, tier, ASSUME, ENCODED, BOUNDS, OUTSIDE, post=mpost)

"""C05 Equal integers behave identically however produced (M: unification kernels; K: category)."""
from vlib.kani import Harness
from vlib import kprop

HARNESSES = [
    Harness("src/types.rs", "types_c13", "c13_category_bignum", cost=120, timeout=1200,
            desc="a bignum cell is in the same standard-order class (Integer) as a fixnum",
            bounds="any i64 stored as a bignum", covers_required=False),
    Harness("src/types.rs", "types_c13", "c13_category_leaf_cells", cost=90, timeout=1200,
            desc="fixnum cells are in class Integer", bounds="56-bit", covers_required=False),
]
ENCODED = ["Number::{cmp, eq} and the usize variants: all 40 representation arms (exact domain "
           "between integers/rationals, lossless, consistent)", "Unifier::unify_fixnum", "Unifier::unify_big_integer", "Unifier::unify_big_rational",
           "HeapCellValue::order_category", "index keys, index layout and the clause look-ahead (mirsmt/c06.py, shared with C06)",
           "every switch on a Number's representation outside the arithmetic kernels (builtins of "
           "system_calls.rs, machine_state_impl.rs, dispatch.rs, unify.rs, ...): Integer and Fixnum "
           "arms present together"]
ASSUME = ["dashu's num_eq/eq compare denoted values (trusted; IBig::num_eq(&i64) was checked on "
          "stack values in round 0)",
          "the fixnum fast paths of the arithmetic kernels normalise their results (C01 "
          "check_via_from: Fixnum iff the value fits)"]
BOUNDS = "every pair (instruction number kind, cell kind); comparison outcome symbolic"
OUTSIDE = ("what the Integer arm of an integer-taking builtin computes (only its presence is decided; "
           "the replay set compares outcomes), the database, sorting (compare_term_test), "
           "ArenaFrom<Integer> (no normalisation by design)")


def mpost(results):
    from vlib.mirsmt import c05, numarms, c05sites
    from vlib.common import EXIT_VIOLATION, EXIT_INCONCLUSIVE
    r1 = c05.run()
    r2 = numarms.run(label="C05")
    r3 = c05sites.run()
    # index keys and the clause look-ahead are where equal integers most easily diverge (shared with C06)
    from vlib.mirsmt import c06 as m06
    r4 = m06.run(prop="C05")
    out = dict(r1)
    out["evaluations"] = sum(r.get("evaluations", 0) for r in (r1, r2, r3, r4))
    out["distinct_nontrivial"] = sum(r.get("distinct_nontrivial", 0) for r in (r1, r2, r3, r4))
    out["samples"] = r1.get("samples", []) + r2.get("samples", []) + r3.get("samples", []) + r4.get("samples", [])[:12]
    if r4.get("known_findings_hit"):
        out["known_findings_hit"] = r4["known_findings_hit"]
    out["mirsmt_regions"] = r1.get("mirsmt_regions", []) + r3.get("mirsmt_regions", [])
    for k, v in r2.items():
        if k.startswith("numarms"):
            out[k] = v
    if "mirsmt_violations" in r3:
        out.setdefault("mirsmt_violations", []).extend(r3["mirsmt_violations"])
    ex = [r.get("exit", 0) for r in (r1, r2, r3, r4)]
    if EXIT_VIOLATION in ex:
        out["exit"] = EXIT_VIOLATION
    elif EXIT_INCONCLUSIVE in ex:
        out["exit"] = EXIT_INCONCLUSIVE
    return out


def run(tier):
    return kprop.run("C05", HARNESSES, tier, ASSUME, ENCODED, BOUNDS, OUTSIDE, post=mpost)

"""C33 Heap writes never exceed the reserved capacity (engine K)."""
from vlib.kani import Harness
from vlib import kprop

SRC = "src/machine/heap.rs"
MOD = "heap_c33"
S3 = "InnerHeap::grow -> returns false, heap untouched (realloc failure contract)"


def H(name, cost, desc, bounds, tiers=("quick", "thorough"), stubs=(S3,), **kw):
    return Harness(SRC, MOD, name, cost=cost, desc=desc, bounds=bounds, tiers=tiers,
                   stubs=stubs, **kw)


HARNESSES = [
    H("c33_push_cell_pinned", 10, "push_cell from any fill level of a 6-cell heap, any cell",
      "cap=6 cells, len symbolic 0..6, cell = any 8 bytes"),
    H("c33_reserve_pinned", 10, "reserve(n) for any n (incl. overflowing 8*n)",
      "cap=6, len 0..6, n any usize"),
    H("c33_reserve_then_write_cells", 20, "reserve(n) then n push_cell through the writer",
      "cap=6, len 0..6, n 0..3"),
    H("c33_copy_slice_to_end_pinned", 20, "copy_slice_to_end(a..b) any sub-range of the live cells",
      "cap=6, len 0..6, 0<=a<=b<=len"),
    H("c33_append_pinned", 20, "append(other heap of 0..3 cells)", "cap=6, len 0..6, other 0..3"),
    H("c33_copy_pstr_within_pinned", 10,
      "copy_pstr_within of a 1..7 byte string at any fill level (F3 site)",
      "cap=6, len 3..6, s_len 1..7"),
    H("c33_copy_pstr_within_pinned_long", 30, "copy_pstr_within of an 8..15 byte string",
      "cap=9, len 4..9, s_len 8..15"),
    H("c33_segment_fits_7", 30, "reserve(compute_pstr_size(s)) covers push_pstr_segment(s), |s|=7",
      "L=7 bytes symbolic ASCII non-NUL, start cell 0..2"),
    H("c33_segment_fits_8", 30, "same, |s|=8", "L=8"),
    H("c33_segment_fits_1", 20, "same, |s|=1", "L=1", tiers=("thorough",)),
    H("c33_segment_fits_6", 30, "same, |s|=6", "L=6", tiers=("thorough",)),
    H("c33_segment_fits_9", 30, "same, |s|=9", "L=9", tiers=("thorough",)),
    H("c33_segment_fits_15", 60, "same, |s|=15", "L=15", tiers=("thorough",)),
    H("c33_segment_fits_16", 60, "same, |s|=16", "L=16", tiers=("thorough",)),
    H("c33_segment_fits_17", 60, "same, |s|=17", "L=17", tiers=("thorough",)),
    H("c33_allocate_cstr_nul_segments", 90, "allocate_cstr of a text with 3 embedded NULs: the "
      "reservation covers every cell push_pstr writes", "text \"a\\0b\\0c\\0d\", cap 160 "
      "cells, fill level symbolic", timeout=1500),
    H("c33_allocate_pstr_nul_segments", 90, "allocate_pstr with adjacent and separated NULs",
      "text \"ab\\0\\0cd\\0e\", cap 160, fill symbolic", timeout=1500),
    H("c33_allocate_cstr_plain7", 60, "allocate_cstr of a 7-byte text (extra padding cell case)",
      "\"abcdefg\", cap 160, fill symbolic", tiers=("thorough",), timeout=1500),
    Harness(SRC, "heap_c30", "c30_list_builder_fails_cleanly", cost=60, timeout=1500,
            desc="sized_iter_to_heap_list: reserves 1 + 2*size cells and writes exactly that",
            bounds="size 1..2 or huge, cap 5, fill symbolic", stubs=(S3,)),
    H("c33_push_cell_grows", 40, "push_cell with the real InnerHeap::grow (alloc/realloc model)",
      "cap=2, len 0..2", stubs=()),
    H("c33_reserve_grows", 40, "reserve(n<=6) with the real grow, possibly twice",
      "cap=2, len 0..2, n 0..6", stubs=()),
    H("c33_with_cell_capacity", 5, "with_cell_capacity(1..8) establishes the invariant", "cap 1..8",
      stubs=()),
]

ENCODED = ["Heap::push_cell", "Heap::reserve", "Heap::append", "Heap::copy_slice_to_end",
           "Heap::copy_pstr_within", "Heap::with_cell_capacity", "Heap::compute_pstr_size",
           "Heap::scan_slice_to_str", "scan_slice_to_str", "scan_slice_to_str_from_start",
           "pstr_sentinel_length", "InnerHeap::grow", "HeapWriter::write_with",
           "ReservedHeapSection::push_cell", "ReservedHeapSection::push_pstr_segment",
           "Heap::index", "Heap::free_space", "Heap::cell_len"]

ASSUME = [
    "S3: in *_pinned harnesses InnerHeap::grow is replaced by a stub that fails (capacity pinned); "
    "the *_grows harnesses run the real grow on CBMC's alloc/realloc model",
    "heap contents outside planted strings are whatever the allocator returned (nondeterministic)",
    "Heap is leaked with mem::forget at the end of each harness (Drop/dealloc not part of the claim)",
    "Kani models the dev profile (overflow checks, debug assertions on)",
]
BOUNDS = ("capacities 2..9 cells (compile-time constants per harness), fill level symbolic, string "
          "lengths 1..15 symbolic in copy_pstr_within, concrete L in {7,8} (quick) / "
          "{1,6,7,8,9,15,16,17} (thorough) with symbolic ASCII bytes for the segment writer; "
          "unwind 10..40 with unwinding assertions on")
OUTSIDE = ("capacities above 72 bytes; push_pstr's NUL-splicing loop and functor_writer; callers "
           "that hand a ReservedHeapSection more items than they reserved for; Stack, RawBlock, arena")


def run(tier):
    return kprop.run("C33", HARNESSES, tier, ASSUME, ENCODED, BOUNDS, OUTSIDE)

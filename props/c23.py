"""C23 Term inspection: arg/3 and functor/3 (MachineState::try_arg, try_functor), engine M."""
from vlib import mprop
from vlib.mirsmt import c23

ENCODED = ["MachineState::try_arg (all paths): the Str, Lis and string (PStrLoc) arms for both integer "
           "representations of N, and the error mapping",
           "MachineState::try_functor (all paths): inspection by cell kind, construction-mode errors and "
           "outcomes; try_functor_unify_components",
           "MachineState::try_functor_fabricate_struct and its two writer closures (all paths; the loop as one "
           "iteration from its head): which cells are written where, what T is bound to, cells written = cells "
           "reserved, nothing written after a failed reservation; the arity guards on every path of try_functor "
           "that reaches it"]
ASSUME = ["Number::try_from, get_num, the usize conversion of a bignum cell, get_arity, heap_loc_as_cell! are "
          "uninterpreted (the value of N is whatever they return; C05 treats the two representations)",
          "unify_fn! unifies the pair it pushes on the pdl (C10 decides one step of that)",
          "ReservedHeapSection::push_cell appends at consecutive cells starting at the heap top read before the "
          "reservation (C33 decides the writer's capacity arithmetic); Range<usize>::next yields start..end once each"]
BOUNDS = "every N, arity, location as 64-bit words"
OUTSIDE = ("=../2, copy_term/2, term_variables/2, ground/1, subsumes_term/2 (MachineState-wide "
           "traversals / Prolog source), the character iterator behind the string arm of arg/3 (C20)")


def run(tier):
    return mprop.run("C23", tier, [("arg", c23.run)], ASSUME, ENCODED, BOUNDS, OUTSIDE)

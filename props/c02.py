"""C02 Float and mixed-type evaluation: ISO error checks + integer rounding (engine K)."""
from vlib.kani import Harness
from vlib import kprop

A = "src/arithmetic.rs"
O = "src/machine/arithmetic_ops.rs"
Q = ("quick", "thorough")
T = ("thorough",)
D = ("deep",)     # unregistered: float division over all finite doubles did not finish within an hour


def HA(name, cost, desc, bounds, tiers=Q, **kw):
    return Harness(A, "arithf_c02", name, cost=cost, desc=desc, bounds=bounds, tiers=tiers, **kw)


def HO(name, cost, desc, bounds, tiers=Q, **kw):
    return Harness(O, "arith_c02", name, cost=cost, desc=desc, bounds=bounds, tiers=tiers, **kw)


HARNESSES = [
    HA("c02_classify_float", 5, "classify_float: Ok iff finite; NaN -> undefined, inf -> "
       "float_overflow", "every f64 bit pattern"),
    HA("c02_add_f", 20, "add_f = IEEE + with overflow check", "all pairs of finite doubles"),
    HA("c02_mul_f", 900, "mul_f = IEEE * with overflow check", "all pairs of finite doubles",
       tiers=T, timeout=7200),
    HA("c02_div_f", 900, "div_f: +-0.0 divisor -> zero_divisor, else IEEE / with overflow check",
       "all pairs of finite doubles", tiers=D, timeout=3600),
    HA("c02_div_f_zero_guard", 30, "div_f reports zero_divisor exactly for divisors +-0.0 "
       "(subnormals are not zero)", "all pairs of finite doubles"),
    HA("c02_promote_fixnum", 20, "fixnum -> double promotion is `as f64`, never an error",
       "full 56-bit"),
    HA("c02_number_div_fix_fix", 900, "Fixnum / Fixnum = double quotient of promoted operands",
       "|x|,|y| < 2^12", tiers=D, timeout=3600),
    HA("c02_number_div_mixed", 400, "Fixnum / Float and Float / Fixnum", "56-bit x finite double",
       tiers=D, timeout=3000),
    HA("c02_rnd_i_float", 60, "rnd_i on floats: floor inequality; |x| >= 2^55 never a fixnum "
       "(F2 site)", "every finite double"),
    HA("c02_rnd_i_fixnum_identity", 10, "rnd_i on a fixnum is the identity", "full 56-bit"),
    HO("c02_unary_template_float", 30, "unary_float_fn_template: Ok(y) iff the function value y "
       "is finite (closure returns an arbitrary double)", "finite arg, any result"),
    HO("c02_unary_template_fixnum_arg", 30, "template promotes a fixnum argument with `as f64`",
       "56-bit arg, any result"),
    HO("c02_float_conv", 30, "float/1", "56-bit, finite double"),
    HO("c02_sqrt_guard", 30, "sqrt(negative) -> undefined before libm; -0.0 accepted",
       "every finite double"),
    HO("c02_sqrt_guard_fixnum", 30, "sqrt(negative integer) -> undefined", "56-bit"),
    HO("c02_atan2_guard", 30, "atan2(0,0) undefined for every zero representation",
       "{0, 0.0, -0.0}^2"),
    HO("c02_div_guard", 120, "/ : divisor +-0.0 <=> zero_divisor", "all pairs of finite doubles",
       timeout=1500),
    HO("c02_div_guard_fixnum_zero", 30, "x / 0 -> zero_divisor", "56-bit or finite double / 0"),
    HO("c02_pow_zero_negative", 60, "0 ** negative, 0.0 ^ negative undefined",
       "any negative finite exponent / negative fixnum"),
    HO("c02_floor", 90, "floor(double) = the integer n with n <= x < n+1", "every finite double"),
    HO("c02_ceiling", 120, "ceiling(double)", "|x| < 2^55 - 1"),
    HO("c02_truncate", 120, "truncate(double)", "|x| < 2^55 - 1"),
    HO("c02_round", 90, "round(double): nearest integer", "every finite double"),
    HO("c02_min_max_mixed", 60, "min/max of fixnum and float compare as doubles",
       "56-bit x finite double"),
    HO("c02_neg_abs_sign_float", 30, "- abs sign on floats", "every finite double"),
    HO("c02_add_mul_mixed", 120, "fixnum + float", "56-bit x finite double", timeout=1500),
    HO("c02_add_mixed_swapped", 120, "float + fixnum", "56-bit x finite double", tiers=T,
       timeout=1500),
    HO("c02_mul_mixed", 300, "fixnum * float", "56-bit x finite double", tiers=T, timeout=3000),
]

ENCODED = ["arithmetic::classify_float", "add_f", "mul_f", "div_f", "float_fn_to_f", "result_f",
           "rnd_f", "rnd_i", "<Number as Div>::div", "arithmetic_ops::div", "float",
           "unary_float_fn_template", "sqrt", "atan2", "pow", "int_pow", "floor", "ceiling",
           "truncate", "round", "min", "max", "neg", "abs", "Number::sign", "Number::is_zero",
           "Number::is_negative", "add", "mul"]
ASSUME = [
    "CBMC's bit-precise IEEE-754 binary64 semantics (round-to-nearest-even) is the reference "
    "for + * / and conversions",
    "libm is replaced by an arbitrary double: the harness closure of unary_float_fn_template "
    "returns kani::any(); the number libm returns is outside the claim",
    "IBig::try_from(f64) and IBig::from(i64) are recording models (S4); error constructors S5",
    "bignum and rational operands are outside (P18)",
]
BOUNDS = ("every finite double for classification, + (quick), * (thorough, ~50 min), the zero-divisor / "
          "overflow guards of / and the rounding functions; 56-bit fixnums for promotion; the value of the "
          "quotient (IEEE / over all finite doubles, Fixnum/Fixnum) did not finish within an hour and is in no "
          "registered tier; unwind 10")
OUTSIDE = ("the value returned by libm functions; dashu conversions; rational/bignum -> double; "
           "printing of -0.0; nested expressions")


def mpost(results):
    from vlib.mirsmt import c02
    return c02.run()


def run(tier):
    return kprop.run("C02", HARNESSES, tier, ASSUME, ENCODED, BOUNDS, OUTSIDE, post=mpost)

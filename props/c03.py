"""C03 Arithmetic does not depend on how the expression reaches is/2 (engine M)."""
from vlib import mprop
from vlib.mirsmt import c03

ENCODED = ["ArithmeticEvaluator::get_binary_instr", "ArithmeticEvaluator::get_unary_instr",
           "Machine::dispatch_loop (arithmetic instruction arms)",
           "MachineState::{add,sub,mul,...}_instr (41 handlers)",
           "MachineState::arith_eval_by_metacall (binary/unary/nullary functor switches)"]
ASSUME = ["the kernels themselves are functions of (operands, arena) only - their results are "
          "fixed by the C01/C02 harnesses, so equal calls give equal results",
          "operand fetch (get_number: store/deref) is shared by both evaluators",
          "stack discipline of the post-order walk: first pop = last operand",
          "error *context* terms (culprit atom of pow, stub functor of rdiv) are normalised away: "
          "the statement speaks of the formal term"]
BOUNDS = ("every evaluable functor of arity 1 and 2 found in either evaluator (currently 21 + 20) "
          "and the 3 constants; acyclic regions, no unrolling needed")
OUTSIDE = ("findall/assert/call contexts (they reach the same two evaluators through Prolog "
           "code); push_literal's constants vs the arity-0 arm are compared by name only")


def run(tier):
    return mprop.run("C03", tier, [("wiring", c03.run)], ASSUME, ENCODED, BOUNDS, OUTSIDE)

"""C20 Strings: partial-string encoding arithmetic (engine K)."""
from vlib.kani import Harness
from vlib import kprop

SRC = "src/machine/heap.rs"
MOD = "heap_c20"
Q = ("quick", "thorough")
T = ("thorough",)


def H(name, cost, desc, bounds, tiers=Q, **kw):
    return Harness(SRC, MOD, name, cost=cost, desc=desc, bounds=bounds, tiers=tiers, **kw)


RT = "write with push_pstr_segment, then bytes / scan from every offset / pstr_tail_idx / " \
     "compute_pstr_size / slice_to_str agree"
HARNESSES = [
    H("c20_roundtrip_1", 60, RT, "|s|=1, bytes symbolic ASCII non-NUL, start cell 0..2",
      covers_required=False),
    H("c20_roundtrip_7", 200, RT, "|s|=7", covers_required=False, timeout=1500),
    H("c20_roundtrip_8", 200, RT, "|s|=8", covers_required=False, timeout=1500),
    H("c20_roundtrip_2", 60, RT, "|s|=2", tiers=T, covers_required=False),
    H("c20_roundtrip_6", 200, RT, "|s|=6", tiers=T, covers_required=False, timeout=1500),
    H("c20_roundtrip_9", 300, RT, "|s|=9", tiers=T, covers_required=False, timeout=2400),
    H("c20_roundtrip_15", 600, RT, "|s|=15", tiers=T, covers_required=False, timeout=3600),
    H("c20_roundtrip_16", 600, RT, "|s|=16", tiers=T, covers_required=False, timeout=3600),
    H("c20_roundtrip_17", 600, RT, "|s|=17", tiers=T, covers_required=False, timeout=3600),
    H("c20_index_identities_all_lengths", 20, "sentinel length, cells written and "
      "Heap::pstr_tail_idx agree for every length", "len 1..2^48, base 8-aligned < 2^48",
      covers_required=False),
    H("c20_copy_3", 120, "copy_pstr_within reproduces bytes, returns the source tail", "|s|=3",
      covers_required=False, timeout=1500),
    H("c20_copy_7", 200, "same", "|s|=7", covers_required=False, timeout=1500),
    H("c20_copy_8", 300, "same", "|s|=8", tiers=T, covers_required=False, timeout=2400),
    H("c20_last_char_3", 120, "last_str_char_and_tail: char at offset, next offset or tail",
      "|s|=3, every offset", covers_required=False, timeout=1500),
    H("c20_last_char_7", 200, "same", "|s|=7", tiers=T, covers_required=False, timeout=1500),
    H("c20_last_char_multibyte_7", 200, "last_str_char_and_tail when the last character is a "
      "4-byte scalar and only one NUL pads the string (len % 8 == 7)",
      "3 symbolic ASCII bytes + U+1F600", covers_required=False, timeout=1500),
    H("c20_last_char_multibyte_5", 200, "same with a 2-byte last character", "3 symbolic ASCII "
      "bytes + U+00E9", tiers=T, covers_required=False, timeout=1500),
    H("c20_last_char_multibyte_mid2", 60, "last_str_char_and_tail on a 2-byte character that is not the "
      "last: the next offset advances by its UTF-8 length", "ASCII + U+00F1 + ASCII, both ASCII bytes symbolic",
      covers_required=False, timeout=1500),
    H("c20_last_char_multibyte_mid4", 60, "same with a 4-byte character", "ASCII + U+1F600 + ASCII",
      covers_required=False, timeout=1500),
]
ENCODED = ["ReservedHeapSection::push_pstr_segment", "scan_slice_to_str",
           "scan_slice_to_str_from_start", "pstr_sentinel_length", "Heap::pstr_tail_idx",
           "Heap::compute_pstr_size", "Heap::scan_slice_to_str", "Heap::slice_to_str",
           "Heap::copy_pstr_within", "Heap::last_str_char_and_tail",
           "heap::compare_pstr_slices (tail-index construction, mismatch window; engine M)",
           "ParallelHeapIter::next (strings against lists under compare/3: arm order and sides; engine M, "
           "shared with C13)",
           "CopyTermState::copy_partial_string (engine M: a newly registered string is marked and its old "
           "first cell trailed under the same index)"]
ASSUME = ["string lengths are compile-time constants per harness; bytes are symbolic non-NUL ASCII",
          "one string per harness, written at cell 0..2 of a fresh heap"]
BOUNDS = ("lengths {1,7,8} quick, +{2,6,9,15,16,17} thorough; index identities for every length "
          "< 2^48 (pure arithmetic)")
OUTSIDE = ("allocate_pstr/allocate_cstr/push_pstr as a whole (str::find defeats CBMC) and their "
           "NUL-splicing loop; HeapPStrIter; every builtin that consumes strings; multi-byte "
           "UTF-8 contents")


def mpost(results):
    from vlib.mirsmt import c20, c13
    from vlib.common import EXIT_VIOLATION, EXIT_INCONCLUSIVE
    r1 = c20.run()
    # strings against lists under compare/3: the list x string arms of ParallelHeapIter (shared with C13)
    r2 = c13.run(prop="C20")
    out = dict(r1)
    out["evaluations"] = r1.get("evaluations", 0) + r2.get("evaluations", 0)
    out["distinct_nontrivial"] = r1.get("distinct_nontrivial", 0) + r2.get("distinct_nontrivial", 0)
    out["samples"] = r1.get("samples", []) + r2.get("samples", [])
    out["mirsmt_regions"] = r1.get("mirsmt_regions", []) + r2.get("mirsmt_regions", [])
    if "mirsmt_violations" in r2:
        out.setdefault("mirsmt_violations", []).extend(r2["mirsmt_violations"])
    ex = [r.get("exit", 0) for r in (r1, r2)]
    out["exit"] = EXIT_VIOLATION if EXIT_VIOLATION in ex else (EXIT_INCONCLUSIVE if EXIT_INCONCLUSIVE in ex else 0)
    return out


def run(tier):
    return kprop.run("C20", HARNESSES, tier, ASSUME, ENCODED, BOUNDS, OUTSIDE, post=mpost)

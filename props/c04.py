"""C04 Arithmetic comparison is exact and self-consistent (K: Number::cmp/eq; M: dispatch arms)."""
from vlib.kani import Harness
from vlib import kprop

A = "src/arithmetic.rs"
Q = ("quick", "thorough")


def H(name, cost, desc, bounds, tiers=Q, **kw):
    return Harness(A, "arithf_c04", name, cost=cost, desc=desc, bounds=bounds, tiers=tiers,
                   covers_required=False, **kw)


HARNESSES = [
    H("c04_cmp_fix_fix", 20, "cmp/eq/partial_cmp on fixnums = integer order; antisymmetric",
      "full 56-bit pairs"),
    H("c04_cmp_fix_float", 60, "fixnum vs float: compare (n as f64) with f, both orders; eq <=> "
      "cmp == Equal", "56-bit x every finite double"),
    H("c04_cmp_float_float", 20, "float vs float = IEEE order, -0.0 == 0.0",
      "all pairs of finite doubles"),
    H("c04_transitive_mixed", 120, "<= is transitive across fixnum/float/float triples",
      "56-bit x finite double^2"),
    H("c04_cmp_usize", 20, "Number vs usize", "56-bit x any usize"),
]
ENCODED = ["all 16+16 arms of Number::cmp / Number::eq and the 4+4 arms of the usize variants "
           "(engine M: domain, lossless conversion, operand order)", "<Number as Ord>::cmp", "<Number as PartialEq>::eq", "<Number as PartialOrd>::partial_cmp",
           "<Number as PartialOrd<usize>>::partial_cmp", "<Number as PartialEq<usize>>::eq"]
ASSUME = ["NaN cannot be produced by evaluation (C02) and is excluded",
          "arms with a bignum or rational side delegate to dashu comparisons (trusted; P18)"]
BOUNDS = "full 56-bit fixnums, every finite double"
OUTSIDE = "dashu's comparisons (Integer/Rational arms); operand fetch"


def mpost(results):
    from vlib.mirsmt import c04 as m, numarms
    from vlib.common import EXIT_VIOLATION, EXIT_INCONCLUSIVE
    r1 = m.run()
    r2 = numarms.run(label="C04")
    out = dict(r1)
    out["evaluations"] = r1.get("evaluations", 0) + r2.get("evaluations", 0)
    out["distinct_nontrivial"] = r1.get("distinct_nontrivial", 0) + r2.get("distinct_nontrivial", 0)
    out["samples"] = r1.get("samples", []) + r2.get("samples", [])
    for k, v in r2.items():
        if k.startswith("numarms"):
            out[k] = v
    ex = [r.get("exit", 0) for r in (r1, r2)]
    if EXIT_VIOLATION in ex:
        out["exit"] = EXIT_VIOLATION
    elif EXIT_INCONCLUSIVE in ex:
        out["exit"] = EXIT_INCONCLUSIVE
    return out


def run(tier):
    return kprop.run("C04", HARNESSES, tier, ASSUME, ENCODED, BOUNDS, OUTSIDE, post=mpost)

"""C55 writeq quoting decision, escapes, token separation, bracketing (engine K)."""
from vlib.kani import Harness
from vlib import kprop

SRC = "src/heap_print.rs"
MOD = "print_c55"
Q = ("quick", "thorough")
T = ("thorough",)


def H(name, cost, desc, bounds, tiers=Q, **kw):
    return Harness(SRC, MOD, name, cost=cost, desc=desc, bounds=bounds, tiers=tiers, **kw)


HARNESSES = [
    H("c55_quoting_empty", 5, "'' must be quoted", "concrete", covers_required=False),
    H("c55_quoting_len1", 10, "non_quoted_token == ISO 6.4.2 reference", "every 1-char ASCII text"),
    H("c55_quoting_len2", 20, "same", "every 2-char ASCII text"),
    H("c55_quoting_len3", 40, "same", "every 3-char ASCII text"),
    H("c55_quoting_len4", 120, "same", "every 4-char ASCII text", tiers=T),
    H("c55_quoting_non_ascii_head", 120, "non-ASCII first char accepted only as a small letter",
      "U+0080..U+024F followed by one ASCII char", tiers=T, covers_required=False),
    H("c55_char_to_string_quoted_ascii", 60, "escapes of 6.4.2.1 inside quotes",
      "every ASCII char except hex-escaped controls"),
    H("c55_char_to_string_unquoted_ascii", 30, "printable ASCII passes through", "32..126"),
    H("c55_requires_space_sufficient", 60, "whenever two adjacent tokens would fuse, a space is "
      "requested", "all ASCII (last, first) char pairs"),
    H("c55_needs_bracketing_plus", 120, "operand priority above the argument bound => brackets; "
      "strictly lower priority => none", "priorities 0..1200, all 7x7 specifiers, parent '+'",
      timeout=1500),
    H("c55_needs_bracketing_minus", 120, "same for a parent '-' (prefix minus over an infix/"
      "postfix operand is always bracketed)", "priorities 0..1200, all 7x7 specifiers",
      timeout=1500),
]
ENCODED = ["heap_print::non_quoted_token", "non_quoted_graphic_token", "char_to_string",
           "requires_space", "needs_bracketing", "char-class macros (small_letter_char, "
           "alpha_numeric_char, graphic_token_char, solo_char, ...)", "OpDesc::build_with/get",
           "OpDeclSpec::is_strict_left/right", "char_to_string's format! arm (MIR)",
           "every function of heap_print.rs that emits an operator token (format_clause -> enqueue_op, "
           "print_rational): only on paths where ignore_ops was read false (MIR)"]
ASSUME = ["ASCII texts (one harness adds a Latin-extended first char)",
          "K stubs std::fmt::format; the hex-escape branch of char_to_string is decided by the M part "
          "(the value handed to LowerHex is the whole code point)",
          "S1 arcu epoch stub where Atom::as_str is reached"]
BOUNDS = "texts of 0..3 chars (quick), 4 (thorough); all priorities 0..1200 x 7 specifiers"
OUTSIDE = ("HCPrinter's walk (heap iterators, op-table IndexMap), write_canonical beyond the ignore_ops guard of operator tokens, decisions that "
           "depend on the operator table, non-ASCII beyond U+024F")


def mpost(results):
    from vlib.mirsmt import c55
    return c55.run()


def run(tier):
    return kprop.run("C55", HARNESSES, tier, ASSUME, ENCODED, BOUNDS, OUTSIDE, post=mpost)

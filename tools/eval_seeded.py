#!/usr/bin/env python3
"""eval_seeded.py [--copy] [ids...]: run the property's check against each seeded change.

Default (the registered procedure): `git -C /repo apply patch.diff`, run `./check <PROP> --tier
quick`, `git -C /repo checkout -- .`. With --copy the patch is applied to a scratch copy of /repo
(VERIF_REPO) so that other work on /repo is not disturbed (development aid)."""
import json, os, re, subprocess, sys, time
SEEDED = "/verif/seeded"


def main():
    args = [a for a in sys.argv[1:] if not a.startswith("--")]
    copy = "--copy" in sys.argv
    only = os.environ.get("VERIF_ONLY")
    ids = args or sorted(os.listdir(SEEDED))
    if "--reverse" in sys.argv:
        ids = list(reversed(ids))
    for sid in ids:
        sd = os.path.join(SEEDED, sid)
        mp = os.path.join(sd, "meta.json")
        if not os.path.exists(os.path.join(sd, "patch.diff")):
            continue
        meta = json.load(open(mp))
        if "--skip-done" in sys.argv and meta.get("evaluation"):
            continue
        lockf = os.path.join(sd, ".evaluating")
        if "--skip-done" in sys.argv:
            try:
                fd = os.open(lockf, os.O_CREAT | os.O_EXCL | os.O_WRONLY)
                os.close(fd)
            except FileExistsError:
                continue
        prop = meta["property"]
        env = dict(os.environ)
        if copy:
            repo = os.environ.get("EVAL_REPO", "/tmp/wt/eval_repo")
            subprocess.run(["rsync", "-a", "--delete", "--exclude", "/target", "/repo/", repo + "/"], check=True)
            subprocess.run(["git", "-C", repo, "checkout", "-q", "--", "."], check=True)
            env["VERIF_REPO"] = repo
        else:
            repo = "/repo"
        r = subprocess.run(["git", "-C", repo, "apply", os.path.join(sd, "patch.diff")], capture_output=True, text=True)
        if r.returncode != 0:
            print(sid, "patch does not apply:", r.stderr[:200]); continue
        t0 = time.time()
        try:
            p = subprocess.run(["./check", prop, "--tier", "quick"], cwd="/verif", capture_output=True,
                               text=True, env=env, timeout=7200)
            out, rc = p.stdout + p.stderr, p.returncode
        except subprocess.TimeoutExpired:
            out, rc = "timeout", -9
        finally:
            subprocess.run(["git", "-C", repo, "checkout", "--", "."], check=True)
        viol = re.findall(r"^VIOLATION .*$", out, re.M)
        fails = re.findall(r"^\s+(\S+)\s+fail\s", out, re.M)
        inconc = re.findall(r"^\s+(\S+)\s+inconclusive", out, re.M)
        meta["evaluation"] = {"check": "./check %s --tier quick" % prop + (" (VERIF_ONLY=%s)" % only if only else ""),
                              "applied_to": repo, "exit": rc, "violation_lines": viol,
                              "failing_harnesses": fails, "inconclusive": inconc,
                              "detected": rc == 1 and bool(viol), "wall_s": round(time.time() - t0),
                              "log_tail": out[-1500:]}
        json.dump(meta, open(mp, "w"), indent=1)
        try:
            os.unlink(os.path.join(sd, ".evaluating"))
        except OSError:
            pass
        print(sid, "exit", rc, "detected" if rc == 1 and viol else "MISSED", viol[:2], fails[:4])


if __name__ == "__main__":
    main()

#!/usr/bin/env python3
"""confirm_seeded.py [ids...]: for each /verif/seeded/<id> not yet confirmed, in a scratch worktree:
apply patch -> build -> demo must FAIL -> test suite must pass (stable baseline tests) ->
revert -> build -> demo must PASS. Results go to meta.json."""
import json, os, re, subprocess, sys, time
SEEDED = "/verif/seeded"
WT = "/tmp/wt/confirm"
BASE = json.load(open("/root/.vp/BASELINE.json"))
STABLE = set(BASE["stable_pass"])
ENV = dict(os.environ, CARGO_NET_OFFLINE="true")


def sh(cmd, cwd=WT, timeout=3600):
    p = subprocess.run(cmd, shell=True, cwd=cwd, capture_output=True, text=True, timeout=timeout, env=ENV)
    return p.returncode, p.stdout + p.stderr


def ensure_wt():
    if not os.path.isdir(WT):
        subprocess.run(["git", "-C", "/repo", "worktree", "add", "--detach", WT, "HEAD"], check=True)
        subprocess.run(["cp", "-a", "/repo/target", WT + "/target"], check=True)
    sh("git checkout -- . && git clean -fdq -e target -e _demo")
    # follow /repo's HEAD
    head = subprocess.run(["git", "-C", "/repo", "rev-parse", "HEAD"], capture_output=True, text=True).stdout.strip()
    sh("git checkout -q --detach %s" % head)


def run_demo(sd):
    dd = os.path.join(WT, "_demo")
    subprocess.run(["rm", "-rf", dd]); os.makedirs(dd)
    for fn in os.listdir(sd):
        if fn in ("patch.diff", "meta.json"):
            continue
        txt = open(os.path.join(sd, fn), errors="replace").read().replace("{WT}", WT)
        open(os.path.join(dd, fn), "w").write(txt)
    if os.path.exists(os.path.join(dd, "run.sh")):
        rc, out = sh("sh run.sh", cwd=dd, timeout=600)
        return rc, out[-1500:]
    return None, "no run.sh (rust test demo?)"


def run_tests():
    rc, out = sh("cargo nextest run --workspace --no-fail-fast --tool-config-file pb:/w/lib/nextest.toml "
                 "--profile pb --test-threads 8 --offline 2>&1 | tail -400", timeout=5400)
    failed = set(re.findall(r"^\s+FAIL(?: \[[^\]]*\])? +(\S+) +(\S+)\s*$", out, re.M))
    failed = {"%s::%s" % (a.replace("::", "::"), b) if False else b for a, b in failed}
    names = set(re.findall(r"FAIL \[[^\]]*\] +\S+ +(\S+)", out))
    bad = sorted(n for n in names if any(s.endswith("::" + n) or s.endswith(n) for s in STABLE))
    summary = re.findall(r"Summary.*", out)
    return bad, (summary[-1] if summary else out[-300:])


def main():
    ids = sys.argv[1:] or sorted(os.listdir(SEEDED))
    for sid in ids:
        sd = os.path.join(SEEDED, sid)
        mp = os.path.join(sd, "meta.json")
        if not os.path.exists(os.path.join(sd, "patch.diff")):
            continue
        meta = json.load(open(mp)) if os.path.exists(mp) else {}
        if meta.get("confirmed") is not None and "--force" not in sys.argv:
            continue
        t0 = time.time()
        ensure_wt()
        rec = {}
        rc, out = sh("git apply --check %s/patch.diff && git apply %s/patch.diff" % (sd, sd))
        rec["applies"] = rc == 0
        if rc == 0:
            rc, out = sh("cargo build --offline 2>&1 | tail -5", timeout=3600)
            rec["builds"] = "error" not in out.lower() or "warning" in out.lower() and rc == 0
            rec["build_tail"] = out[-300:]
            d_rc, d_out = run_demo(sd)
            rec["demo_with_patch_rc"] = d_rc
            rec["demo_with_patch_out"] = d_out[-600:]
            bad, summ = run_tests()
            rec["stable_tests_failing_with_patch"] = bad
            rec["test_summary"] = summ
            sh("git checkout -- .")
            rc, out = sh("cargo build --offline 2>&1 | tail -3", timeout=3600)
            d2_rc, d2_out = run_demo(sd)
            rec["demo_without_patch_rc"] = d2_rc
            rec["demo_without_patch_out"] = d2_out[-300:]
            rec["confirmed_ok"] = bool(d_rc not in (0, None) and d2_rc == 0 and not bad)
        meta["confirmed"] = rec
        meta["confirm_wall_s"] = round(time.time() - t0)
        meta["what_i_ran"] = ("scratch worktree %s at /repo HEAD: git apply, cargo build, demo run.sh "
                              "(must fail), cargo nextest (baseline command; stable tests must pass), "
                              "git checkout, rebuild, demo (must pass)" % WT)
        json.dump(meta, open(mp, "w"), indent=1)
        print(sid, json.dumps({k: v for k, v in rec.items() if "out" not in k and "tail" not in k}))


if __name__ == "__main__":
    main()

#!/usr/bin/env python3
"""Regenerate /verif/MANIFEST.json from props/registry.py."""
import json
import os
import sys

HERE = os.path.dirname(os.path.dirname(os.path.abspath(__file__)))
sys.path.insert(0, HERE)
from props import registry as R  # noqa: E402

BASELINE = ("cd /repo && cargo nextest run --workspace --no-fail-fast --tool-config-file "
            "pb:/w/lib/nextest.toml --profile pb --test-threads 8 --offline || "
            "(cd /repo && cargo test --workspace --no-fail-fast --offline)")


def main():
    checks = []
    for pid in sorted(R.CLAIMED):
        c = R.CLAIMED[pid]
        checks.append({
            "property_id": pid,
            "quick_cmd": "./check %s --tier quick" % pid,
            "thorough_cmd": "./check %s --tier thorough" % pid,
            "evidence_file": "/verif/evidence/%s.json" % pid,
            "replay_cmd_template": "./check %s --replay {path}" % pid,
            "engine": c["engine"],
            "level_claimed": {"category": "model_checking", "text": c["text"],
                              "design_ref": c["design_ref"]},
            "level_note": c["note"],
            "technique": c["technique"],
        })
    na = []
    ids = ["C%02d" % i for i in range(1, 56)]
    for pid in ids:
        if pid in R.CLAIMED:
            continue
        reason = R.NOT_APPLICABLE.get(pid) or R.PENDING.get(pid)
        assert reason, pid
        na.append({"property_id": pid, "reason": reason})
    m = {
        "version": 1,
        "setup_cmd": "./check --setup",
        "hooks": {
            "guard": "cfg(kani)",
            "enable": ("no hook is committed to /repo: each check copies /repo's working tree to "
                       "/var/tmp/verif-cache/slot-N/src, appends `#[cfg(kani)] #[path=...] mod "
                       "verif_*;` lines to the targeted source files of the copy and runs "
                       "`cargo kani --no-default-features -Z stubbing` there; cfg(kani) is set "
                       "only by cargo-kani"),
            "baseline_off_cmd": BASELINE,
            "source_commits": [],
            "add_only": True,
        },
        "engines": [
            {"name": "kani", "path": "/verif/vlib/kani.py",
             "serves_properties": sorted(p for p, c in R.CLAIMED.items() if "kani" in c["engine"]),
             "kind_free_text": "Kani 0.68 / CBMC 6.11 bounded model checking of the real crate "
                               "with in-crate harness modules overlaid on a scratch copy"},
            {"name": "mirsmt", "path": "/verif/vlib/mirsmt",
             "serves_properties": sorted(p for p, c in R.CLAIMED.items() if "mirsmt" in c["engine"]),
             "kind_free_text": "MIR-slice symbolic executor -> SMT-LIB (z3, cvc5 cross-check) "
                               "regenerated from the nightly MIR dump of the current tree"},
        ],
        "checks": checks,
        "not_applicable": na,
        "notes": ("Exit codes: 0 held; 1 VIOLATION (after native replay); 2 inconclusive (timeout, "
                  "OOM, unwinding assertion, unsatisfied cover, non-reproducing counterexample, "
                  "build break). Known findings: /verif/known_findings.json."),
    }
    with open(os.path.join(HERE, "MANIFEST.json"), "w") as f:
        json.dump(m, f, indent=1)
        f.write("\n")
    print("MANIFEST.json: %d checks, %d not_applicable" % (len(checks), len(na)))


if __name__ == "__main__":
    main()

#!/usr/bin/env python3
"""Markdown table of the seeded changes for DESIGN.md §12.1 (from seeded/*/meta.json + notes.md);
also copies the agent's 'what it needs to manifest' paragraph into meta.json."""
import json, os, re
SEEDED = "/verif/seeded"
rows = []
for sid in sorted(os.listdir(SEEDED)):
    sd = os.path.join(SEEDED, sid)
    mp = os.path.join(sd, "meta.json")
    if not os.path.exists(os.path.join(sd, "patch.diff")) or not os.path.exists(mp):
        continue
    meta = json.load(open(mp))
    notes = open(os.path.join(sd, "notes.md"), errors="replace").read() if os.path.exists(os.path.join(sd, "notes.md")) else ""
    title = re.sub(r"^#\s*", "", notes.split("\n")[0]) if notes else ""
    title = re.sub(r"^(C\d+ )?([Ss]eeded defect|seed) \d+\s*[—-]\s*", "", title)
    m = re.search(r"^#+ *(What is needed[^\n]*|Trigger[^\n]*|What it needs[^\n]*|When it manifests[^\n]*|Needed to manifest[^\n]*)\n(.*?)(?=^#+ |\Z)", notes, re.S | re.M | re.I)
    needs = re.sub(r"\s+", " ", m.group(2)).strip()[:600] if m else ""
    if needs and not meta.get("needs_to_manifest"):
        meta["needs_to_manifest"] = needs
        json.dump(meta, open(mp, "w"), indent=1)
    files = sorted(set(re.findall(r"^\+\+\+ b/(\S+)", open(os.path.join(sd, "patch.diff")).read(), re.M)))
    c = meta.get("confirmed") or {}
    e = meta.get("evaluation") or {}
    conf = {True: "yes", False: "NO", None: "-"}[c.get("confirmed_ok") if isinstance(c, dict) else None]
    if e:
        by = ", ".join(e.get("failing_harnesses") or []) or ("M / replay" if e.get("detected") else "")
        vl = (e.get("violation_lines") or [""])[0]
        rp = re.search(r"replay=\S*/([^/\s]+)$", vl)
        det = "**detected** (%s%s)" % (by[:80], ("; " + rp.group(1)) if rp and "M / replay" in by else "") if e.get("detected") \
            else ("inconclusive (exit 2)" if e.get("exit") == 2 else "missed (exit %s)" % e.get("exit"))
        det += " %ss" % e.get("wall_s")
    else:
        det = "-"
    rows.append("| %s | %s | %s | %s | %s |" % (sid, ", ".join(f.replace("src/", "") for f in files), title[:110], conf, det))
print("| id | file | change (the sub-agent's title) | confirmed by me | property's quick check |")
print("|---|---|---|---|---|")
print("\n".join(rows))

#!/usr/bin/env python3
"""import_seeded.py <PROP> <agent worktree>: copy <wt>/_out/N into /verif/seeded/<PROP>-N/"""
import json, os, shutil, sys
prop, wt = sys.argv[1].upper(), sys.argv[2].rstrip("/")
out = os.path.join(wt, "_out")
for n in sorted(os.listdir(out)):
    d = os.path.join(out, n)
    if not os.path.isdir(d) or not os.path.exists(os.path.join(d, "patch.diff")):
        continue
    k = int(n) + (int(sys.argv[3]) if len(sys.argv) > 3 else 0)
    dst = "/verif/seeded/%s-%d" % (prop, k)
    if os.path.exists(os.path.join(dst, "patch.diff")):
        sys.exit("refusing to overwrite %s (pass an offset as third argument)" % dst)
    os.makedirs(dst, exist_ok=True)
    for fn in os.listdir(d):
        if fn.startswith("test_full") or fn.endswith(".log"):
            continue
        src = os.path.join(d, fn)
        if os.path.isfile(src) and os.path.getsize(src) < 200000:
            txt = open(src, errors="replace").read().replace(wt, "{WT}")
            open(os.path.join(dst, fn), "w").write(txt)
    meta = {"property": prop, "source": "sub-agent given only the property text and a scratch "
            "worktree", "agent_worktree": wt, "confirmed": None}
    mp = os.path.join(dst, "meta.json")
    if not os.path.exists(mp):
        json.dump(meta, open(mp, "w"), indent=1)
    print("imported", dst)

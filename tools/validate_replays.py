#!/usr/bin/env python3
"""Run every Prolog replay case set on the binary built from the CURRENT tree: on a tree where the
properties hold, every goal must answer as specified (otherwise a replay would 'reproduce' a
violation that does not exist)."""
import sys, os, json
sys.path.insert(0, os.path.dirname(os.path.dirname(os.path.abspath(__file__))))
from vlib import prolog
sets = [
    ("C04", lambda: prolog.replay_compare_arms([{"rel": r} for r in prolog.REL])),
    ("C03", lambda: prolog.replay_evaluators(
        [{"functor": f, "arity": 2} for f in ["+", "-", "*", "/", "//", "div", "mod", "rem", "min", "max",
                                              "**", "^", ">>", "<<", "/\\", "\\/", "xor", "gcd", "atan2", "rdiv"]] +
        [{"functor": f, "arity": 1} for f in ["-", "+", "abs", "sign", "float", "floor", "ceiling", "round",
                                              "truncate", "sqrt", "sin", "cos", "exp", "log", "\\",
                                              "float_integer_part", "float_fractional_part"]] +
        [{"functor": f, "arity": 0} for f in ["pi", "e", "epsilon"]])),
    ("C09", lambda: prolog.replay_logical_update_view([])),
    ("C11", lambda: prolog.replay_backtracking([])),
    ("C06fit", lambda: prolog.replay_index_keys("fit", None)),
    ("C06routing", lambda: prolog.replay_index_routing([])),
    ("C05", lambda: prolog.replay_equal_integers([])),
    ("C01", lambda: prolog.replay_bignum_arms([{"kernel": k} for k in
                                               ["add", "mul", "idiv", "remainder", "modulus", "and", "or", "xor", "gcd"]])),
    ("C02", lambda: prolog.replay_float_functions([{"kernel": k} for k in
                                                  ["float_pow", "int_pow", "sqrt", "sin", "cos", "tan", "log", "exp",
                                                   "asin", "acos", "atan", "atan2", "float_fractional_part",
                                                   "float_integer_part", "round"]])),
    ("C20", lambda: prolog.replay_string_suffix_compare([])),
    ("C20copy", lambda: prolog.replay_string_copy([])),
    ("C13", lambda: prolog.replay_term_order([])),
    ("C13atoms", lambda: prolog.replay_atom_order([])),
    ("C21", lambda: prolog.replay_atom_identity([])),
    ("C21growth", lambda: prolog.replay_atom_table_growth([])),
    ("C06order", lambda: prolog.replay_clause_order([])),
    ("C06look", lambda: prolog.replay_lookahead([])),
    ("C55", lambda: prolog.replay_hex_escapes([])),
    ("C55canon", lambda: prolog.replay_canonical([])),
    ("numcmp", lambda: prolog.replay_number_comparisons([], "C04")),
    ("C10", lambda: prolog.replay_unification([])),
    ("C14", lambda: prolog.replay_sorting([])),
    ("C23", lambda: prolog.replay_arg([])),
]
only = sys.argv[1:]
bad = 0
for name, f in sets:
    if only and name not in only:
        continue
    r = f()
    mm = r.get("mismatches", [])
    print("%-10s cases=%d mismatches=%d %s" % (name, len(r.get("cases", [])), len(mm), r.get("why", "")))
    for m in mm[:8]:
        print("     ", json.dumps(m)[:300])
    bad += len(mm)
sys.exit(1 if bad else 0)

#!/usr/bin/env python3
"""Insert the generated tables into DESIGN.md (seeded changes, as-built check table)."""
import re, subprocess
p = "/verif/DESIGN.md"
s = open(p).read()
t = subprocess.run(["python3", "/verif/tools/gen_seeded_table.py"], capture_output=True, text=True).stdout
s = re.sub(r"<!-- SEEDED_TABLE_BEGIN -->.*?<!-- SEEDED_TABLE_END -->",
           "<!-- SEEDED_TABLE_BEGIN -->\n" + t.strip() + "\n<!-- SEEDED_TABLE_END -->", s, flags=re.S)
t2 = subprocess.run(["python3", "/verif/tools/gen_design_table.py"], capture_output=True, text=True).stdout
if "<!-- CHECK_TABLE_BEGIN -->" in s:
    s = re.sub(r"<!-- CHECK_TABLE_BEGIN -->.*?<!-- CHECK_TABLE_END -->",
               "<!-- CHECK_TABLE_BEGIN -->\n" + t2.strip() + "\n<!-- CHECK_TABLE_END -->", s, flags=re.S)
open(p, "w").write(s)
print("DESIGN.md updated")

#!/usr/bin/env python3
"""Print the per-property 'as built' table for DESIGN.md from props/*.py."""
import importlib, os, sys
HERE = os.path.dirname(os.path.dirname(os.path.abspath(__file__)))
sys.path.insert(0, HERE)
from props import registry as R
print("| id | engine | K harnesses quick / thorough | M module | bounds (from the check's own spec) |")
print("|---|---|---|---|---|")
for pid in sorted(R.CLAIMED):
    m = importlib.import_module("props." + pid.lower())
    hs = getattr(m, "HARNESSES", None)
    if hs is None and hasattr(m, "harnesses"):
        hs = m.harnesses()
    q = sum(1 for h in hs or [] if "quick" in h.tiers)
    t = sum(1 for h in hs or [] if "thorough" in h.tiers)
    mm = "mirsmt/%s.py" % pid.lower() if os.path.exists(os.path.join(HERE, "vlib", "mirsmt", pid.lower() + ".py")) else ""
    if pid == "C21":
        mm = "vlib/static_atoms.py (z3)"
    print("| %s | %s | %s | %s | %s |" % (pid, R.CLAIMED[pid]["engine"], "%d / %d" % (q, t) if hs else "-", mm,
                                        getattr(m, "BOUNDS", "").replace("|", "\\|")))

#!/bin/bash
# stop every running check and its solver processes (development helper)
for p in $(pgrep -x python3); do
  if tr '\0' ' ' < /proc/$p/cmdline | grep -q "\./check "; then kill -TERM $p; fi
done
sleep 1
pkill -x cbmc; pkill -x cargo-kani; pkill -x kani-driver
exit 0
